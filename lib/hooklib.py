"""Traces recorded by the cfg-guarded hooks in stun-proto (MANIFEST.hooks): the repository's own agent tests and
the adapter's random histories, validated by TLC against StunAgentHookTrace (full internal state after every call).
Best effort by design: the hooks read private fields, so a refactoring of the crate may stop them from compiling;
then this part is skipped (recorded in the evidence), never reported as a verdict."""
import json
import os
import re
import subprocess

from common import *  # noqa

HOOK_FLAGS = "--cfg ystreet_stun_proto_verif --check-cfg cfg(ystreet_stun_proto_verif)"


def run_repo_tests_hooked(wd):
    """cargo test -p stun-proto with the hooks on; returns (trace path | None, note)"""
    trace = os.path.join(wd, "repo_tests.hook.ndjson")
    if os.path.exists(trace):
        os.remove(trace)
    env = dict(os.environ, RUSTFLAGS=HOOK_FLAGS, CARGO_TARGET_DIR=os.path.join(WORK, "hooktarget"), STUN_VERIF_TRACE=trace,
               CARGO_NET_OFFLINE="true")
    import fcntl
    with open(os.path.join(WORK, ".hookbuild.lock"), "w") as lk:
        fcntl.flock(lk, fcntl.LOCK_EX)
        p = subprocess.run(["cargo", "test", "-p", "stun-proto", "--offline", "--lib", "--quiet"], cwd=REPO, env=env,
                           stdout=subprocess.PIPE, stderr=subprocess.STDOUT, text=True)
    if p.returncode != 0:
        if "error" in p.stdout and "could not compile" in p.stdout:
            return None, "hooked build of stun-proto does not compile on this tree (skipped)"
        return None, "the repository's agent tests do not pass with hooks on (skipped; the unhooked baseline is the reference)"
    if not os.path.exists(trace):
        return None, "no hook trace written (hooks absent from this tree?)"
    return trace, "ok"


def build_hooked_harness():
    env = dict(os.environ, RUSTFLAGS=HOOK_FLAGS, CARGO_TARGET_DIR=os.path.join(WORK, "hookharness"), CARGO_NET_OFFLINE="true")
    import fcntl
    with open(os.path.join(WORK, ".hookbuild2.lock"), "w") as lk:
        fcntl.flock(lk, fcntl.LOCK_EX)
        p = subprocess.run(["cargo", "build", "--offline", "--quiet"], cwd=HARNESS, env=env, stdout=subprocess.PIPE,
                           stderr=subprocess.STDOUT, text=True)
    if p.returncode != 0:
        return None
    return os.path.join(WORK, "hookharness", "debug", "stunh")


class Tok:
    def __init__(self, prefix):
        self.prefix, self.m = prefix, {}

    def __call__(self, x):
        if x not in self.m:
            self.m[x] = "%s%d" % (self.prefix, len(self.m) + 1)
        return self.m[x]


def convert(path):
    """hook lines -> {transport: [(agent key, [trace lines])]}; values are re-based and tokenised per agent"""
    per_agent = {}
    order = []
    with open(path) as f:
        for ln in f:
            try:
                e = json.loads(ln)
            except ValueError:
                continue
            k = (e["agent"],)
            if k not in per_agent:
                per_agent[k] = []
                order.append(k)
            per_agent[k].append(e)
    res = {"udp": [], "tcp": []}
    for k in order:
        evs = per_agent[k]
        transport = evs[0]["transport"].lower()
        tids, addr, pay, key = {}, Tok("a"), Tok("p"), Tok("k")
        def tid(x):
            if x not in tids:
                tids[x] = len(tids)
            return tids[x]
        def ktok(x):
            return "none" if x == "none" else key(x)
        instants = []
        for e in evs:
            if "now" in e:
                instants.append(e["now"])
            for o in e["post"]["out"]:
                if o["lastSend"] != -1:
                    instants.append(o["lastSend"])
        base = min(instants) if instants else 0
        if len(tids) > 20:
            continue
        lines = [{"ev": "reset"}]
        ok = True
        for e in evs:
            post = {"out": [{"tid": tid(o["tid"]), "to": addr(o["to"]), "sealed": o["sealed"], "pay": pay(o["pay"]),
                             "sched": o["sched"], "last": o["last"], "idx": o["idx"], "lastSend": o["lastSend"] - base,
                             "sc": o["sc"], "rc": o["rc"]} for o in e["post"]["out"]],
                    "val": [addr(a) for a in e["post"]["val"]], "rcred": ktok(e["post"]["rcred"]), "lcred": ktok(e["post"]["lcred"])}
            ev = e["ev"]
            if ev == "send":
                if e["cls"] == "request":
                    ln = {"ev": "send_req", "tid": tid(e["tid"]), "to": addr(e["to"]), "sealed": e["sealed"], "pay": pay(e["pay"]), "now": e["now"] - base}
                else:
                    ln = {"ev": "send_other", "cls": e["cls"], "to": addr(e["to"]), "pay": pay(e["pay"])}
            elif ev == "recv":
                if e["cls"] in ("success", "error"):
                    integ = {"none": "none", "invalid": "corrupt"}.get(e["integ"], post["rcred"])
                    ln = {"ev": "recv_resp", "tid": tid(e["tid"]), "from": addr(e["from"]), "integ": integ}
                else:
                    ln = {"ev": "recv_other", "cls": e["cls"], "from": addr(e["from"])}
            elif ev == "poll":
                ln = {"ev": "poll", "now": e["now"] - base}
            elif ev in ("cancel", "cancel_rt"):
                ln = {"ev": ev, "tid": tid(e["tid"])}
            elif ev == "configure":
                ln = {"ev": "configure", "tid": tid(e["tid"]), "rto": e["rto"], "n": e["n"], "last": e["last"]}
            elif ev in ("set_remote", "set_local"):
                ln = {"ev": ev, "key": ktok(e["key"])}
            else:
                ok = False
                break
            ln["post"] = post
            lines.append(ln)
        if ok and len(tids) <= 20:
            res[transport].append((k, lines))
    return res


def validate(hists, transport, wd, tag):
    """returns (accepted histories, rejected [(agent key, line)], lines validated, tlc runs)"""
    pending = list(hists)
    rejected = []
    nlines = 0
    runs = 0
    acc = 0
    for _ in range(6):
        if not pending:
            break
        flat, owner = [], []
        for hi, (k, lines) in enumerate(pending):
            for ln in lines:
                flat.append(ln)
                owner.append(hi)
        tp = os.path.join(wd, "hook_%s_%s.ndjson" % (tag, transport))
        with open(tp, "w") as f:
            for ln in flat:
                f.write(json.dumps(ln) + "\n")
        res = run_tlc("StunAgentHookTrace.tla", "StunAgentHookTrace_%s.cfg" % transport, workers=1, timeout=1800,
                      env_extra={"TRACE": tp}, java_opts="-Xss1g -Xmx4g -Dtlc2.tool.queue.IStateQueue=StateDeque")
        runs += 1
        os.remove(tp)
        out = res["out"]
        m = re.search(r'"REJECTED (\d+)"', out)
        bad = None
        if m:
            bad = int(m.group(1))
        elif "is violated" in out:
            m2 = re.findall(r"^State (\d+):", out, flags=re.M)
            bad = (int(m2[-1]) - 1) if m2 else 1
        elif "Model checking completed" not in out or re.search(r"^Error:", out, flags=re.M):
            raise ToolError("hook trace validation did not run cleanly:\n" + "\n".join(l[:300] for l in out.splitlines()[-25:]))
        if bad is None:
            nlines += len(flat)
            acc += len(pending)
            break
        bad = min(bad, len(flat))
        hi = owner[bad - 1]
        rejected.append((pending[hi][0], flat[bad - 1]))
        nlines += sum(len(x[1]) for x in pending[:hi])
        acc += hi
        pending = pending[hi + 1:]
    return acc, rejected, nlines, runs


def selftest(hists, transport, wd):
    """The binding of the hook traces demonstrated: the first accepted history that has an outstanding request at some line is
    corrupted in one INTERNAL field of that line (position in the schedule, last transmission instant, a cancellation flag) and
    TLC must reject it at that line.  Returns the list of corruptions tried; raises ToolError if one is still accepted."""
    done = []
    for k, lines in hists:
        i = next((j for j, ln in enumerate(lines) if ln.get("post", {}).get("out")), None)
        if i is None:
            continue
        for field, f in (("idx", lambda v: v + 1), ("lastSend", lambda v: v + 1), ("sc", lambda v: not v)):
            mutated = json.loads(json.dumps(lines))
            o = mutated[i]["post"]["out"][0]
            o[field] = f(o[field])
            acc, rejected, nlines, runs = validate([(k, mutated)], transport, wd, "selftest")
            at = None
            if rejected:
                at = next((j for j, ln in enumerate(mutated) if ln == rejected[0][1]), None)
            ok = bool(rejected) and at == i
            done.append({"field": field, "line": i + 1, "rejected_at_line": None if at is None else at + 1, "ok": ok})
            if not ok:
                raise ToolError("binding self-test: StunAgentHookTrace accepted (or rejected elsewhere) a trace whose recorded %s was changed at line %d" % (field, i + 1))
        break
    return done
