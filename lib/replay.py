"""./check <pid> --replay <file>: re-execute exactly the failing case and print what the code did."""
import json
import os

from common import *  # noqa


def run(pid, path):
    with open(path) as f:
        r = json.load(f)
    rp = r["replay"]
    build_harness()
    print("property:", r["property"])
    print("what:", r["what"])
    if rp.get("kind") == "agent_script":
        import agentlib
        wd = workdir("replay")
        out = agentlib.run_scripts([rp["script"]], wd, "replay")
        for ev in out[rp["script"]["id"]]:
            print(json.dumps(ev))
    elif rp.get("kind") == "pair_script":
        import paircheck
        wd = workdir("replay")
        for _id, evs in paircheck.replay_pair(rp["script"], wd).items():
            for ev in evs:
                print(json.dumps(ev))
    elif rp.get("kind") == "tcpx_script":
        import tcpxcheck
        wd = workdir("replay")
        for _id, evs in tcpxcheck.replay_tcpx(rp["script"], wd).items():
            for ev in evs:
                print(json.dumps(ev))
    elif rp.get("kind") == "tcp_script":
        import tcpcheck
        tcpcheck.replay(rp)
    else:
        import codeccheck
        codeccheck.replay(pid, rp)
    return 0
