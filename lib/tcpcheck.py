"""C14: TCP framing buffer.  MCTcpFraming (TLC) + LTS-guided replay into TcpBuffer + trace validation."""
import json
import os
import random
import re
import subprocess
import time

from common import *  # noqa
from agentlib import canon


def run_tcp_scripts(scripts, wd, tag):
    ip = os.path.join(wd, tag + ".in")
    op = os.path.join(wd, tag + ".out")
    with open(ip, "w") as f:
        for sc in scripts:
            f.write(json.dumps(sc) + "\n")
    run_harness(["tcp", ip, op])
    res = {}
    with open(op) as f:
        for ln in f:
            r = json.loads(ln)
            res[r["id"]] = r["events"]
    os.remove(ip)
    os.remove(op)
    return res


def load_lts(path):
    ids, states, trans = {}, [], []
    inits = []
    n = 0
    def sid(st):
        c = canon(st)
        if c not in ids:
            ids[c] = len(states)
            states.append(st)
            trans.append({})
        return ids[c]
    with open(path) as f:
        for ln in f:
            if not ln.startswith('"EDGE '):
                continue
            e = json.loads(json.loads(ln)[5:])
            s, d = sid(e["src"]), sid(e["dst"])
            a = e["act"]
            key = ("push", tuple(a["bytes"])) if a["name"] == "push" else ("pull",)
            trans[s][key] = (a.get("reply"), d)
            n += 1
    for i, st in enumerate(states):
        if st["npulled"] == 0 and st["buf"] == [] and True:
            pass
    return states, trans, n


def replay(rp):
    wd = workdir("replay")
    out = run_tcp_scripts([rp["script"]], wd, "replay")
    for ev in out[rp["script"]["id"]]:
        e = dict(ev)
        if "bytes" in e and len(e["bytes"]) > 40:
            e["bytes"] = e["bytes"][:40] + ["..."]
        print(json.dumps(e)[:600])


def apalache_inductive(wd):
    """Init => IndInv (length 0) and IndInv /\\ Next => IndInv' (length 1) for spec/TcpFramingInd.tla.  The outcome does not
    depend on the code under test: a failure here is a defect of the specification (tool error), an unavailable or slow
    Apalache is recorded and nothing more."""
    import subprocess
    if shutil.which("apalache-mc") is None:
        return {"ran": False, "why": "apalache-mc not on PATH"}
    out_dir = os.path.join(wd, "apalache")
    res = {}
    for name, args in (("base", ["--init=Init", "--length=0"]), ("step", ["--init=IndInit", "--length=1"])):
        t0 = time.time()
        try:
            p = subprocess.run(["apalache-mc", "check", "--cinit=ConstInit", "--inv=IndInv", "--out-dir=" + out_dir] + args + ["TcpFramingInd.tla"],
                               cwd=os.path.join(SPEC, "apalache"), capture_output=True, text=True, timeout=600)
        except subprocess.TimeoutExpired:
            return {"ran": False, "why": "apalache-mc timed out in the %s case" % name}
        txt = p.stdout + p.stderr
        if "The outcome is: NoError" in txt:
            res[name] = {"outcome": "NoError", "t": round(time.time() - t0, 1)}
        elif "invariant" in txt and "violated" in txt:
            raise ToolError("TcpFramingInd: IndInv is not inductive (%s case) - the specification is wrong:\n%s" % (name, txt[-1500:]))
        else:
            return {"ran": False, "why": "apalache-mc did not finish cleanly in the %s case: %s" % (name, txt[-300:])}
    shutil.rmtree(out_dir, ignore_errors=True)
    return {"ran": True, "module": "apalache/TcpFramingInd.tla", "bounds": "Radix 4, buffer <= 14 bytes, framed history <= 8 bytes, chunk <= 6 bytes, any digit content", **res}


def run(pid, tier, seed):
    rep = Report(pid, tier, seed, "model_checking")
    wd = workdir("tcp")
    build_harness()
    rng = random.Random(seed)
    # 1. the design: all frame sequences x chunkings x push/pull interleavings
    mc = run_tlc("MCTcpFraming.tla", "MCTcpFraming_mc.cfg" if tier == "quick" else "MCTcpFraming_mcx.cfg", workers=8, timeout=3000)
    tlc_ok(mc, "MCTcpFraming")
    # 2. B1: the complete LTS, every edge driven on the real TcpBuffer
    ltsp = os.path.join(wd, "tcp.lts")
    lres = run_tlc("MCTcpFraming.tla", "MCTcpFraming_lts.cfg", workers=1, timeout=3000, out_path=ltsp)
    tlc_ok(lres, "MCTcpFraming LTS")
    states, trans, nedges = load_lts(ltsp)
    os.remove(ltsp)
    if nedges == 0:
        raise ToolError("empty TCP LTS")
    # initial states: nothing pushed or pulled yet
    inits = [i for i, st in enumerate(states) if st["npulled"] == 0 and st["buf"] == [] and
             not any(i == d for s in range(len(states)) for (_r, d) in [])]
    has_pred = set()
    for s in range(len(states)):
        for k, (_r, d) in trans[s].items():
            if d != s:
                has_pred.add(d)
    inits = [i for i in inits if i not in has_pred]
    # scripts: from each initial state, cover every edge reachable (DFS paths)
    scripts = []
    covered = set()
    for i0 in inits:
        # greedy walks until all edges from this init's component are covered
        stack = [(i0, [])]
        seen_paths = 0
        while stack and seen_paths < 4000:
            s, word = stack.pop()
            keys = [k for k in trans[s] if (s, k) not in covered]
            if not keys:
                if word:
                    scripts.append((i0, word))
                    seen_paths += 1
                continue
            first = True
            for k in keys:
                covered.add((s, k))
                d = trans[s][k][1]
                if d == s:
                    # self loop (pull -> none): execute it and go on from here with remaining keys
                    word = word + [k]
                    continue
                stack.append((d, word + [k]))
            if all(trans[s][k][1] == s for k in keys):
                scripts.append((i0, word))
                seen_paths += 1
    # the buffer may keep state the abstract state does not show (cursors, cached lengths): besides covering every
    # edge, walk many whole paths per frame sequence (random chunking, 0-2 pulls after every push, a final drain)
    per_init = 40 if tier == "quick" else 400
    for i0 in inits:
        for _ in range(per_init):
            s = i0
            word = []
            for _step in range(40):
                pushes = [k for k in trans[s] if k[0] == "push"]
                if not pushes:
                    break
                k = rng.choice(pushes)
                word.append(k)
                s = trans[s][k][1]
                for _p in range(rng.choice([0, 1, 1, 2, 3])):
                    word.append(("pull",))
                    s = trans[s][("pull",)][1]
            for _p in range(4):
                word.append(("pull",))
                s = trans[s][("pull",)][1]
            scripts.append((i0, word))
    js = []
    for n, (i0, word) in enumerate(scripts):
        steps = [{"a": "push", "bytes": list(k[1])} if k[0] == "push" else {"a": "pull"} for k in word]
        js.append({"id": "l%d" % n, "steps": steps, "default_ctor": n % 2 == 1, "init": i0})
    out = run_tcp_scripts(js, wd, "b1")
    steps_total = 0
    for sc in js:
        s = sc["init"]
        for si, ev in enumerate(out[sc["id"]]):
            key = ("push", tuple(ev["bytes"])) if ev["a"] == "push" else ("pull",)
            spec_reply, d = trans[s][key]
            got = ev["ret"]
            if key[0] == "pull":
                ok = (got == spec_reply)
            else:
                ok = got.get("k") == "ok"
            if not ok:
                rep.violation("frames %s, step %d %s: TcpBuffer answered %s, specification %s" % (
                    states[sc["init"]]["frames"], si, key[0], json.dumps(got)[:200], json.dumps(spec_reply)[:200]),
                    {"kind": "tcp_script", "script": {k: sc[k] for k in ("id", "steps", "default_ctor")}})
                break
            s = d
            steps_total += 1
    # 3. B2: real frame sizes (incl. 0, 253..258, 65534, 65535), random chunking, validated by TLC
    nh = 30 if tier == "quick" else 400
    lens_pool = [0, 0, 1, 2, 3, 253, 254, 255, 256, 257, 258, 511, 512, 1000]
    hist = []
    for h in range(nh):
        long_stream = (h % 3 == 2)     # many medium frames: kilobytes flow through without the buffer ever being empty
        tiny_many = (h % 5 == 4)       # hundreds of tiny frames in tiny chunks: a small buffer that is reused over and over
        nf = rng.randint(8, 30) if long_stream else (rng.randint(3, 5) if h in (0, 1) else rng.randint(0, 6))
        if tiny_many:
            long_stream = False
            nf = rng.randint(150, 300)
        backlog = (h % 7 == 6)         # nothing is pulled until more than 64 KiB have piled up
        if backlog:
            long_stream = tiny_many = False
            nf = rng.choice([2, 3, rng.randint(700, 900)])
        stun_like = (h % 6 == 1)       # payloads that are STUN messages - alone, with trailing bytes, or two in a frame
        frames = []
        for _ in range(nf):
            r = rng.random()
            if tiny_many:
                ln = rng.choice([0, 1, 2, 3, 3, 4, 5])
            elif backlog:
                ln = rng.choice([65535, 40000, 30000, 65533]) if nf < 10 else rng.choice([98, 98, 100, 1, 0, 254])
            elif h in (0, 1) and len(frames) == 1:
                ln = 65535 - h          # every run has frames of the two largest sizes, between smaller ones
            elif long_stream:
                ln = rng.choice([rng.randint(100, 1500), rng.randint(0, 40), 1460, 512])
            elif r < 0.04 and tier == "quick" or r < 0.1 and tier != "quick":
                ln = rng.choice([65535, 65534, 65280, 32768])
            elif r < 0.7:
                ln = rng.choice(lens_pool)
            else:
                ln = rng.randint(0, 2000)
            # payload bytes that look like length prefixes on purpose
            mode = rng.randrange(3)
            if mode == 0:
                fr = [rng.randrange(256) for _ in range(ln)]
            elif mode == 1:
                fr = [0] * ln
            else:
                fr = [rng.choice([0, 1, 2, 255]) for _ in range(ln)]
            if stun_like and not backlog and rng.random() < 0.7:
                def stun(body_len, declared=None):
                    d = body_len if declared is None else declared
                    return [rng.choice([0, 1]), rng.choice([1, 0x11]), d >> 8, d & 255, 0x21, 0x12, 0xa4, 0x42] + \
                           [rng.randrange(256) for _ in range(12)] + [0x80, 0x22, 0, max(0, body_len - 4)][:min(4, body_len)] + [65] * max(0, body_len - 4)
                k = rng.randrange(5)
                if k == 0:
                    fr = stun(8)
                elif k == 1:
                    fr = stun(8) + [rng.randrange(256) for _ in range(rng.choice([1, 4, 20]))]     # trailing bytes
                elif k == 2:
                    fr = stun(8) + stun(12)                                                        # two messages, one frame
                elif k == 3:
                    fr = stun(12, declared=rng.choice([0, 4, 8]))                                  # header declares less
                else:
                    fr = stun(4, declared=rng.choice([8, 400]))                                    # header declares more
            frames.append(fr)
        tail = rng.choice([[], [], [0], [255], [0, 5, 1, 2], [255, 255, 7]])
        stream = []
        for fr in frames:
            stream += [len(fr) >> 8, len(fr) & 255] + fr
        stream += tail
        steps = []
        pos = 0
        while pos < len(stream):
            r = rng.random()
            if tiny_many:
                n = rng.choice([1, 1, 2, 3, 5, 7])
            elif long_stream:
                n = rng.choice([1460, 1460, 5130, 536, rng.randint(1, 3000)])
            elif r < 0.3:
                n = 1
            elif r < 0.6:
                n = rng.randint(1, 4)
            elif r < 0.9:
                n = rng.randint(1, 700)
            else:
                n = len(stream) - pos
            if backlog:
                n = rng.choice([1460, 65536, 9000, 4096])
            n = min(n, len(stream) - pos)
            steps.append({"a": "push", "bytes": stream[pos:pos + n]})
            pos += n
            if rng.random() < 0.12:
                steps.append({"a": "push", "bytes": []})       # a zero-length segment is a legal way to cut a stream
            if backlog and pos < min(len(stream), 70000 + 1460 * (h % 5)):
                continue
            for _ in range(rng.choice([0, 0, 1, 1, 2, 3])):
                steps.append({"a": "pull"})
        for _ in range(len(frames) + 2):
            steps.append({"a": "pull"})
        hist.append(({"id": "h%d" % h, "steps": steps, "default_ctor": h % 2 == 0}, frames, tail))
    out2 = run_tcp_scripts([h[0] for h in hist], wd, "b2")
    lines = []
    owner = []
    for hi, (sc, frames, tail) in enumerate(hist):
        lines.append({"ev": "reset", "frames": frames, "tail": tail})
        owner.append(hi)
        for ev in out2[sc["id"]]:
            if ev["a"] == "push":
                if ev["ret"].get("k") != "ok":
                    rep.violation("%s: push panicked" % sc["id"], {"kind": "tcp_script", "script": sc})
                lines.append({"ev": "push", "bytes": ev["bytes"]})
            else:
                lines.append({"ev": "pull", "ret": ev["ret"]})
            owner.append(hi)
    validated = 0
    tlc_runs = 0
    pending_from = 0
    for _attempt in range(6):
        sub = lines[pending_from:]
        if not sub:
            break
        tp = os.path.join(wd, "trace.ndjson")
        with open(tp, "w") as f:
            for ln in sub:
                f.write(json.dumps(ln) + "\n")
        res = run_tlc("TcpFramingTrace.tla", "TcpFramingTrace.cfg", workers=1, timeout=1800, env_extra={"TRACE": tp},
                      java_opts="-Xss1g -Xmx8g -Dtlc2.tool.queue.IStateQueue=StateDeque")
        tlc_runs += 1
        os.remove(tp)
        o = res["out"]
        m = re.search(r'"REJECTED (\d+)"', o)
        bad = None
        if m:
            bad = int(m.group(1))
        elif "is violated" in o:
            m2 = re.findall(r"^State (\d+):", o, flags=re.M)
            bad = (int(m2[-1]) - 1) if m2 else 1
        elif "Model checking completed" not in o or "Error:" in o:
            raise ToolError("TCP trace validation did not run cleanly:\n" + "\n".join(l[:300] for l in o.splitlines()[-25:]))
        if bad is None:
            validated += len(sub)
            break
        gi = pending_from + min(bad, len(sub)) - 1
        hi = owner[gi]
        sc = hist[hi][0]
        rep.violation("%s (frame lengths %s): recorded run is not a behaviour of TcpFraming at %s" % (
            sc["id"], [len(f) for f in hist[hi][1]], json.dumps(lines[gi])[:300]), {"kind": "tcp_script", "script": sc})
        # continue after this history
        nxt = gi + 1
        while nxt < len(lines) and owner[nxt] == hi:
            nxt += 1
        validated += gi - pending_from
        pending_from = nxt
    # the binding demonstrated on this very run: the first small history TLC has accepted, with ONE recorded pull corrupted
    # (a byte of the frame changed / the frame reported as absent / an absent frame reported as an empty one) must be rejected at
    # that line; an accepted corruption means the trace specification does not constrain pull results: tool error
    selftest = []
    small = next((hi for hi, h in enumerate(hist) if sum(len(f) for f in h[1]) < 4000 and any(len(f) > 0 for f in h[1])), None)
    if small is not None and not rep.violations:
        idx = [i for i, o in enumerate(owner) if o == small]
        base = [json.loads(json.dumps(lines[i])) for i in idx]
        def first(pred):
            return next((k for k, ln in enumerate(base) if ln["ev"] == "pull" and pred(ln["ret"])), None)
        kinds = [("frame byte changed", first(lambda r: r.get("k") == "frame" and len(r.get("bytes", [])) > 0), lambda r: dict(r, bytes=[r["bytes"][0] ^ 1] + r["bytes"][1:])),
                 ("frame reported as absent", first(lambda r: r.get("k") == "frame"), lambda r: {"k": "none"}),
                 ("absent frame reported as an empty frame", first(lambda r: r.get("k") == "none"), lambda r: {"k": "frame", "bytes": []})]
        for what, k, f in kinds:
            if k is None:
                selftest.append({"kind": what, "applied": False})
                continue
            mutated = [json.loads(json.dumps(x)) for x in base]
            mutated[k]["ret"] = f(mutated[k]["ret"])
            tp = os.path.join(wd, "trace_selftest.ndjson")
            with open(tp, "w") as fh:
                for ln in mutated:
                    fh.write(json.dumps(ln) + "\n")
            res = run_tlc("TcpFramingTrace.tla", "TcpFramingTrace.cfg", workers=1, timeout=600, env_extra={"TRACE": tp},
                          java_opts="-Xss1g -Xmx4g -Dtlc2.tool.queue.IStateQueue=StateDeque")
            os.remove(tp)
            o = res["out"]
            m = re.search(r'"REJECTED (\d+)"', o)
            at = int(m.group(1)) if m else None
            if at is None and "is violated" in o:
                m2 = re.findall(r"^State (\d+):", o, flags=re.M)
                at = (int(m2[-1]) - 1) if m2 else None
            ok = at == k + 1
            selftest.append({"kind": what, "applied": True, "line": k + 1, "rejected_at_line": at, "ok": ok})
            if not ok:
                raise ToolError("binding self-test: TcpFramingTrace did not reject the corruption '%s' at line %d (answer: %s)" % (what, k + 1, at))
    rep.add_cov(binding_selftest=selftest)
    sample = {"frames": [len(f) for f in hist[0][1]], "steps": [(s["a"], len(s.get("bytes", []))) for s in hist[0][0]["steps"][:12]]}
    # unbounded-history half of the argument: `pushed = framed \o buf` is an inductive invariant of Push/Pull (Apalache;
    # any buffer content up to the bounded lengths, not only states reachable within a bounded number of steps)
    rep.add_cov(apalache_inductive_invariant=apalache_inductive(wd))
    # the framing end to end: STUN over two byte streams (StunTcpExchange.tla)
    from tcpxcheck import tcpx_binding
    xstats = tcpx_binding(pid, tier, seed, wd, rep)
    rep.add_cov(stun_over_byte_streams=xstats)
    rep.add_cov(states=mc["distinct"] + lres["distinct"], transitions=mc["generated"] + lres["generated"],
                traces_validated_against_impl=len(js) + len(hist), samples=[sample],
                lts_edges=nedges, lts_edges_driven=len(covered), lts_scripts=len(js), lts_steps=steps_total,
                trace_lines_validated=validated, trace_histories=len(hist), tlc_trace_runs=tlc_runs,
                max_frame_len=max([len(f) for h in hist for f in h[1]] + [0]),
                rule="MCTcpFraming: all frame sequences (lengths 0..2, bytes 0..2, optional incomplete tail) with encoded length <= MaxStream, all chunkings, all push/pull interleavings; every LTS edge executed on TcpBuffer; random real-size frame sequences with random chunking validated by TLC (TcpFramingTrace); StunTcpExchange: a TCP-transport agent, two TcpBuffers and a server joined by byte streams with every segmentation up to MaxChunk (frames pulled = frames sent, in order, once; no retransmission over TCP), LTS bound to the real agent and buffers")
    rep.assumptions += ["TLC + Json/IOUtils modules trusted", "frames longer than 2 bytes are sampled (B2), not enumerated"]
    shutil.rmtree(wd, ignore_errors=True)
    return rep.finish()
