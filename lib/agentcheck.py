"""Checks for the agent properties C05 C06 C07 C15 C18 C20 (DESIGN.md sections 3.1, 4, 5)."""
import concurrent.futures as cf
import json
import subprocess
import os
import random
import time

from common import *  # noqa
from agentlib import *  # noqa

AGENT_PROPS = ["C05", "C06", "C07", "C15", "C18", "C20"]

# model-checking configurations whose invariants/step properties state each property
MC_FOR = {
    "C05": ["life2", "life2_tcp"],
    "C06": ["time1", "time2", "time1_tcp", "default", "default_tcp"],
    "C07": ["life2"],
    "C15": ["life2", "life2_tcp"],
    "C18": ["tx2", "life2_tcp"],
    "C20": [],      # the relational model is StunAgentShift (run separately)
}
MC_THOROUGH_EXTRA = {"C06": ["defaultx"], "C05": ["life3"], "C07": ["life3"], "C15": ["life3"], "C18": [], "C20": []}

LTS_QUICK = ["lts_life", "lts_life_tcp", "lts_time", "lts_time_tcp", "lts_auth", "lts_tx", "lts_default", "lts_default_tcp"]
MODELS["lts_tx"] = dict(cfg="MCAgent_lts_tx.cfg", transport="udp", install=[1, 1, 1], scales=[1, 500, 60000])

ALGS = ["sha1", "sha256", "both"]


from paircheck import pair_binding

def mc_run(name):
    res = run_tlc("MCAgent.tla", "MCAgent_%s.cfg" % name, workers=4, timeout=3000)
    tlc_ok(res, "MCAgent " + name)
    return name, res


def shift_run(name, workers=6):
    res = run_tlc("StunAgentShift.tla", "StunAgentShift_%s.cfg" % name, workers=workers, timeout=3000)
    tlc_ok(res, "StunAgentShift " + name)
    return name, res


def variants_for(pid, i, model, tier):
    """concretisations under which script i of a model is executed.  The first is the baseline."""
    m = MODELS[model]
    sc = m["scales"]
    base = dict(scale=sc[i % len(sc)], seed=i, req_alg=ALGS[i % 3], resp_alg=ALGS[(i // 3) % 3],
                cred_variant=(i // 2) % 5, seal=("ext" if i % 2 == 0 else "lib"),
                other_tid=("outstanding" if (i // 2) % 2 == 0 else "fresh"))
    if i % 4 == 1:
        base["remote_addr"] = "a6"      # an agent associated with one peer; destinations are still per send
    vs = [base]
    if pid == "C20":
        vs.append(dict(base, base_ms=10 ** 9, tag="shift"))
        vs.append(dict(base, base_off_ms=-3000, tag="origin 3 s before the real clock"))
        vs.append(dict(base, thread=True, decoys=3, tag="thread+decoys"))
        vs.append(dict(base, subscriber=True, tag="tracing subscriber installed"))
        vs.append(dict(base, twin=True, tag="a second live agent of the process is given the same history call by call (same transaction ids, same instants)"))
        if tier == "thorough":
            vs.append(dict(base, base_ms=123456789, decoys=5, thread=True, tag="all"))
    return vs


def events_equal_mod_time(a, b):
    return canon(a) == canon(b)


def b1_model(pid, tier, seed, model, wd):
    """LTS-guided replay for one model; returns stats dict"""
    rng = random.Random(seed * 7919 + hash(model) % 1000)
    t0 = time.time()
    l, res = dump_lts(model, wd)
    words = gen_tour(l)
    # C20 executes every script under 4-5 concretisations: it keeps the quick script set in both tiers (all of
    # it in the thorough tier, every 4th script in the quick tier) so that memory stays bounded
    deep = tier == "thorough" and pid != "C20"
    depth = 4 if deep else 3
    words += gen_all_words(l, depth, cap=150000 if deep else 60000)
    words += gen_random_walks(l, 5000 if deep else 300, 40, rng)
    if deep:
        words += gen_cover_words(l, 2, rng, per_state=8)
    if pid == "C20" and tier == "quick":
        words = words[::5]
    scripts = []
    meta = {}
    for i, w in enumerate(words):
        for vi, v in enumerate(variants_for(pid, i + seed, model, tier)):
            sid = "%s/%d/%d" % (model, i, vi)
            kw = {k: v[k] for k in v if k not in ("tag",)}
            sc = make_script(sid, w, model, **kw)
            scripts.append(sc)
            meta[sid] = (i, vi, v.get("tag", "base"))
    out = run_scripts(scripts, wd, model.replace("/", "_"))
    stats = dict(model=model, lts_states=len(l.states), lts_edges=l.nedges, scripts=len(scripts), steps=0,
                 truncated=0, mismatches=0, nondet_scripts=0, t=0.0)
    base_result = {}
    sample = None
    findings = []
    for sc in scripts:
        sid = sc["id"]
        i, vi, tag = meta[sid]
        evs = out.get(sid)
        if evs is None:
            raise ToolError("no result for script " + sid)
        n, nondet, mm, trunc = follow(l, sc["scale"], MODELS[model]["transport"], evs)
        stats["steps"] += n
        stats["truncated"] += 1 if trunc else 0
        stats["nondet_scripts"] += 1 if nondet else 0
        if sample is None and n > 6 and vi == 0:
            sample = {"model": model, "script": sc["steps"][:8], "observed": [e["ret"] for e in evs[:8]]}
        if vi == 0:
            base_result[i] = (mm, nondet, evs, n)
        props = None
        what = None
        if mm:
            stats["mismatches"] += 1
            props, what = list(mm.props), mm.what
        if vi > 0 and i in base_result:
            # C20: the same script under another base instant / thread / with other agents around.  Where no
            # poll choice was open in either run (HashMap order is the only legitimate nondeterminism), the
            # two runs must agree event for event - instants are logged relative to the run's own base.
            bm, bnd, bevs, bn = base_result[i]
            strip = lambda es: [{k: e[k] for k in ("ret", "obs", "probe") if k in e} for e in es]
            # only as far as both runs were followed through the LTS (+ the first unexplained step): beyond
            # that the state is unknown and HashMap order may legitimately differ
            upto = min(n, bn) + 1
            evs_c, bevs_c = evs[:upto], bevs[:upto]
            if not bnd and not nondet and canon(strip(evs_c)) != canon(strip(bevs_c)):
                k = next((j for j in range(min(len(evs_c), len(bevs_c))) if canon(strip(evs[j:j + 1])) != canon(strip(bevs[j:j + 1]))), 0)
                props = ["C20"]
                what = "[variant %s] same script, different answers at step %d: %s vs baseline %s" % (
                    tag, k, canon(strip(evs[k:k + 1])), canon(strip(bevs[k:k + 1])))
                if not mm:
                    stats["mismatches"] += 1
            elif mm and bm is None:
                props = ["C20"]          # conforms in the baseline, not when shifted/threaded/with decoys
                what = "[variant %s] %s" % (tag, what)
        if props:
            if len(findings) < 200:
                findings.append((props, "%s: %s" % (sid, what), {"kind": "agent_script", "script": sc, "model": model}))
    stats["findings"] = findings
    stats["t"] = round(time.time() - t0, 1)
    stats["labels"] = {"%s:%s" % k: v for k, v in sorted(l.labels.items())}
    stats["sample"] = sample
    stats["tlc_generated"] = res["generated"]
    stats["tlc_distinct"] = res["distinct"]
    return stats


# --------------------------------------------------------------------------- B2: random real-valued histories
def special_history(rng, hid, transport, kind):
    """histories in which a count crosses a threshold no small model reaches:
    many   - about a hundred transactions outstanding at once, each with its own schedule, polled to their ends;
    forged - one authenticated transaction receives a dozen responses that do not authenticate, then its schedule
             runs on (or the right response arrives);
    attrs  - authenticated requests that carry twenty attributes in front of the integrity attribute"""
    steps = []
    keys = ["k1", "k2"]
    addrs = ["a1", "a2", "a3", "a4", "a5", "a6"]
    ntids = 8
    def cfg():
        return rng.choice([1, 50, 499, 500, rng.randint(1, 3000)]), rng.choice([0, 1, 2, 3, 7]), rng.choice([0, 1, 800, rng.randint(0, 9000)])
    def wake():
        steps.append({"a": "tick_wake", "delta": rng.choice([0, 0, 0, -1, 1]), "d": rng.randint(1, 2000)})
        steps.append({"a": "poll"})
    if kind == "many":
        ntids = 110
        n = rng.randint(70, 105)
        for t in range(n):
            steps.append({"a": "send", "cls": "request", "tid": t, "to": rng.choice(addrs), "sealed": rng.choice([False, "sha1"]), "pay": rng.choice(["p1", "p2", "p3"])})
            if rng.random() < 0.7:
                rto, k, last = cfg()
                steps.append({"a": "configure", "tid": t, "rto": rto, "n": k, "last": last})
            if rng.random() < 0.1:
                steps.append({"a": "tick", "d": rng.randint(1, 40)})
        steps.append({"a": "set_remote", "key": "k1"})
        for _ in range(450):
            r = rng.random()
            if r < 0.75:
                wake()
            elif r < 0.9:
                steps.append({"a": "recv", "cls": "response", "tid": rng.randrange(n), "from": rng.choice(addrs), "integ": rng.choice(["none", "k1", "k2"]), "alg": rng.choice(ALGS)})
            else:
                steps.append({"a": rng.choice(["cancel", "cancel_rt"]), "tid": rng.randrange(n)})
    elif kind == "forged":
        for rnd in range(3):
            t = rnd
            if rnd != 1:
                steps.append({"a": "set_remote", "key": "k1"})
            steps.append({"a": "send", "cls": "request", "tid": t, "to": "a1", "sealed": rng.choice(["sha1", "sha256", "both"]), "pay": "p1"})
            if rng.random() < 0.5:
                steps.append({"a": "configure", "tid": t, "rto": rng.choice([100, 500]), "n": rng.choice([3, 7]), "last": rng.choice([400, 8000])})
            for i in range(rng.randint(9, 20)):
                steps.append({"a": "recv", "cls": "response", "tid": t, "from": rng.choice(["a1", "a2"]), "integ": rng.choice(["none", "k2", "corrupt"]), "alg": rng.choice(ALGS)})
                if rng.random() < 0.25:
                    wake()
            if rnd == 1:
                steps.append({"a": "set_remote", "key": "k1"})
            for i in range(rng.randint(2, 12)):
                wake()
            steps.append({"a": "recv", "cls": "response", "tid": t, "from": "a1", "integ": "k1", "alg": rng.choice(ALGS)})
            for i in range(12):
                wake()
    else:
        steps.append({"a": "set_remote", "key": "k1"})
        for t in range(6):
            steps.append({"a": "send", "cls": "request", "tid": t, "to": rng.choice(addrs), "sealed": rng.choice(["sha1", "sha256", "both"]), "pay": "pmany%d" % rng.randint(15, 24)})
            steps.append({"a": "recv", "cls": "response", "tid": t, "from": rng.choice(addrs), "integ": rng.choice(["none", "k2", "corrupt"]), "alg": rng.choice(ALGS)})
            wake()
            steps.append({"a": "recv", "cls": "response", "tid": t, "from": rng.choice(addrs), "integ": rng.choice(["none", "k1"]), "alg": rng.choice(ALGS)})
            wake()
    return {"id": hid, "seed": rng.randrange(1 << 30), "transport": transport, "scale": 1, "probe": True, "us": False, "many": kind == "many",
            "ntids": ntids, "steps": steps, "req_alg": rng.choice(ALGS), "resp_alg": rng.choice(ALGS), "cred_variant": rng.randrange(5)}


def rand_history(rng, hid, transport, nsteps, ntids=8, maxrto=60000, us=False, crowd=False):
    """us: instants in microseconds (ticks with sub-millisecond parts; configuration values stay whole ms, values are
    kept small enough for TLC's 32-bit integers); crowd: several hundred distinct peers get validated"""
    addrs = ["a1", "a2", "a3", "a4", "a5", "a6"]
    if us:
        maxrto = 400
    if crowd:
        addrs = ["a%d" % i for i in range(1, 329)]
        nsteps = 700
    if rng.random() < 0.12 and not crowd:
        # many distinct peers (a population larger than any small fixed-size table)
        addrs = ["a%d" % i for i in range(1, 49)]
        nsteps = max(nsteps, 140)
    keys = ["k1", "k2"]
    steps = []
    live = []
    prev_cfg = {}
    def cfgvals(t=None):
        rto = rng.choice([1, 499, 500, 501, 60000, rng.randint(1, maxrto), rng.randint(1, 2000)])
        n = rng.choice([0, 1, 7, 8, rng.randint(0, 8)])
        last = rng.choice([0, 1, 60000, rng.randint(0, 60000), rng.randint(0, 3000)])
        if us:
            rto = rng.choice([1, 2, 100, 399, 400, rng.randint(1, 400)])
            n = rng.choice([0, 1, 2, 3, rng.randint(0, 3)])
            last = rng.choice([0, 1, 500, rng.randint(0, 2000)])
        k = rng.random()
        if k < 0.10 and not us:
            rto, n = 500, 6                     # the intervals of the default schedule, another final timeout
        elif k < 0.30 and t in prev_cfg:
            rto, n = prev_cfg[t]                # only the final timeout changes
        if t is not None:
            prev_cfg[t] = (rto, n)
        return rto, n, last
    many = len(addrs) > 6
    nxt_peer = 0
    tmul = 1000 if us else 1
    for _ in range(nsteps):
        r = rng.random()
        t = rng.randrange(ntids) if rng.random() < 0.7 or not live else rng.choice(live)
        if many and rng.random() < (0.9 if crowd else 0.5):
            # every address of the large population gets validated, in turn
            steps.append({"a": "recv", "cls": rng.choice(["request", "indication"]), "tid": t, "from": addrs[nxt_peer % len(addrs)]})
            nxt_peer += 1
            continue
        if r < 0.30:
            k = rng.random()
            jit = rng.randint(0, 999) if us else 0          # sub-millisecond part
            if k < 0.35:
                steps.append({"a": "tick_wake", "delta": 0, "d": rng.randint(1, 3000) * tmul + jit})
            elif k < 0.55:
                steps.append({"a": "tick_wake", "delta": -1, "d": rng.randint(1, 3000) * tmul + jit})
            elif k < 0.75:
                steps.append({"a": "tick_wake", "delta": rng.choice([1, 2, 499, rng.randint(1, 40000)]) * (tmul if rng.random() < 0.5 else 1), "d": 1})
            else:
                steps.append({"a": "tick", "d": rng.choice([1, 499, 500, 501, rng.randint(1, 5000), rng.randint(1, 100000 if not us else 3000)]) * (tmul if rng.random() < 0.7 else 1) + jit})
            steps.append({"a": "poll"})
        elif r < 0.45:
            sealed = rng.choice([False, False, "sha1", "sha256", "both"])
            st = {"a": "send", "cls": "request", "tid": t, "to": rng.choice(addrs), "sealed": sealed,
                  "pay": rng.choice(["p1", "p2", "p3"]) if rng.random() > 0.03 else "pbig"}
            if st["pay"] == "pbig":
                st["sealed"] = False
            if rng.random() < 0.12:
                st["back"] = rng.choice([1, 300, 450, rng.randint(1, 2000)]) * tmul    # sampled before the last poll's instant
            steps.append(st)
            live.append(t)
            if rng.random() < 0.6:
                rto, n, last = cfgvals(t)
                steps.append({"a": "configure", "tid": t, "rto": rto, "n": n, "last": last})
        elif r < 0.62:
            steps.append({"a": "recv", "cls": "response", "tid": t, "from": rng.choice(addrs),
                          "integ": rng.choice(["none", "k1", "k2", "corrupt"]), "alg": rng.choice(ALGS)})
        elif r < (0.66 if len(addrs) <= 6 else 0.80):
            steps.append({"a": "recv", "cls": rng.choice(["request", "indication"]), "tid": t, "from": rng.choice(addrs)})
            if rng.random() < 0.5:
                # the same request again from another address (a NAT rebinding between retransmissions), answered there
                other = rng.choice(addrs)
                steps.append({"a": "recv", "cls": "request", "tid": t, "from": other})
                steps.append({"a": "send", "cls": rng.choice(["success", "error"]), "to": other, "pay": "p1", "tid": t})
        elif r < 0.78:
            steps.append({"a": "poll"})
        elif r < 0.82:
            steps.append({"a": "cancel", "tid": t})
        elif r < 0.86:
            steps.append({"a": "cancel_rt", "tid": t})
        elif r < 0.91:
            rto, n, last = cfgvals(t)
            steps.append({"a": "configure", "tid": t, "rto": rto, "n": n, "last": last})
        elif r < 0.95:
            steps.append({"a": "set_remote", "key": rng.choice(keys)})
        elif r < 0.97:
            steps.append({"a": "set_local", "key": rng.choice(keys)})
        else:
            st = {"a": "send", "cls": rng.choice(["indication", "success", "error", "data"]), "to": rng.choice(addrs), "pay": rng.choice(["p1", "p2"])}
            if rng.random() < 0.6:
                st["tid"] = t        # e.g. the answer to a request that came in with this id - possibly from several addresses
            steps.append(st)
    if us:
        # always configure (the default schedule of 39.5 s would not fit 32-bit microseconds for long)
        fixed = []
        for st in steps:
            fixed.append(st)
            if st["a"] == "send" and st.get("cls") == "request" and not (len(fixed) < len(steps) and False):
                fixed.append({"a": "configure", "tid": st["tid"], "rto": rng.choice([1, 50, 300]), "n": rng.randint(0, 3), "last": rng.choice([0, 200, 1500])})
        steps = fixed
    return {"id": hid, "seed": rng.randrange(1 << 30), "transport": transport, "scale": 1, "probe": True, "us": us,
            "ntids": ntids, "steps": steps, "req_alg": rng.choice(ALGS), "resp_alg": rng.choice(ALGS),
            "cred_variant": rng.randrange(5)}


def _obs_fields(o):
    return {"out": sorted(o["out"]), "val": sorted(o["val"]), "rcred": o["rcred"], "lcred": o["lcred"]}


def event_to_trace_lines(ev, transport):
    """harness event -> lines of the TLC trace (milliseconds, scale 1) + python-side side-condition failures"""
    a = ev["a"]
    ret = ev["ret"]
    lines = []
    side = []
    if ret.get("k") in ("panic", "harness_parse_error", "harness_unknown_step"):
        return None, ["%s: %s" % (ret.get("k"), ret.get("msg", ret.get("e", "")))]
    def well_typed(r):
        if "tid" in r and not isinstance(r["tid"], int):
            side.append("transmission/event for a transaction id the test never used: %s" % r["tid"])
            return False
        for f in ("to", "from"):
            if f in r and isinstance(r[f], str) and r[f].startswith("unknown"):
                side.append("address not in the universe: %s" % r[f])
                return False
        return True
    if not well_typed(ret):
        return None, side
    if ret.get("k") == "transmit":
        if ret.get("from") != "local":
            side.append("transmission from %s" % ret.get("from"))
        if ret.get("tr") != transport:
            side.append("transmission over %s" % ret.get("tr"))
    if ret.get("k") in ("response", "incoming") and ret.get("same") is not True:
        side.append("handed-up message is not the one received")
    o = _obs_fields(ev["obs"])
    if a in ("tick", "tick_wake"):
        return [], side
    if a == "send":
        if ev["cls"] == "request":
            r = {"k": "transmit", "pay": ret["pay"], "to": ret["to"]} if ret["k"] == "transmit" else {"k": "err", "e": ret.get("e", "?")}
            if ret["k"] == "transmit" and ret.get("tid") != ev["tid"]:
                side.append("transmission carries id %s" % ret.get("tid"))
            lines.append(dict(ev="send_req", tid=ev["tid"], to=ev["to"], sealed=ev["sealed"] not in (False, "none"),
                              pay=ev["pay"], now=ev["now_ms"], ret=r, **o))
        else:
            r = {"k": "transmit", "pay": ret.get("pay", "?"), "to": ret.get("to", "?")} if ret["k"] == "transmit" else {"k": ret["k"]}
            lines.append(dict(ev="send_other", cls=ev["cls"], to=ev["to"], pay=ev["pay"], ret=r, **o))
    elif a == "recv":
        if ev["cls"] == "response":
            lines.append(dict(ev="recv_resp", tid=ev["tid"], **{"from": ev["from"]}, integ=ev["integ"], ret={"k": ret["k"]}, **o))
        else:
            lines.append(dict(ev="recv_other", cls=ev["cls"], **{"from": ev["from"]}, ret={"k": ret["k"]}, **o))
    elif a == "poll":
        lines.append(dict(ev="poll", now=ev["now_ms"], ret=_poll_ret(ret), **o))
    elif a in ("cancel", "cancel_rt"):
        lines.append(dict(ev=a, tid=ev["tid"], ret={"k": ret["k"]}, **o))
    elif a == "configure":
        lines.append(dict(ev="configure", tid=ev["tid"], rto=ev["rto_ms"], n=ev["n"], last=ev["last_ms"], ret={"k": ret["k"]}, **o))
    elif a in ("set_remote", "set_local"):
        lines.append(dict(ev=a, key=ev["key"], **o))
    if "probe" in ev:
        p = ev["probe"]
        if not well_typed(p):
            return None, side
        lines.append(dict(ev="poll", now=-1, ret=_poll_ret(p), **_obs_fields(ev["obs2"])))
    return lines, side


def _poll_ret(ret):
    if ret["k"] == "wait":
        # TLC integers are 32-bit: an instant beyond that (the idle hour in microseconds) is passed as a marker; the
        # specification ignores the idle value and can never produce the marker for an outstanding request
        u = ret["until_ms"]
        return {"k": "wait", "until": u if -2000000000 < u < 2000000000 else -2}
    if ret["k"] == "transmit":
        return {"k": "transmit", "tid": ret["tid"], "pay": ret["pay"], "to": ret["to"]}
    return {"k": ret["k"], "tid": ret.get("tid", -1)}


B2_OWNER = {"poll": ["C06", "C05"], "recv_resp": ["C07", "C05", "C15"], "recv_other": ["C15"], "send_req": ["C05", "C18"],
            "send_other": ["C18"], "cancel": ["C05"], "cancel_rt": ["C05", "C06"], "configure": ["C06"],
            "set_remote": ["C07"], "set_local": ["C07"]}


def validate_trace(lines, transport, wd, tag, us=False):
    # us: False/"" (milliseconds), True/"us" (microsecond instants), "many" (ids 0..127)
    sfx = {"us": "_us", "many": "_many", True: "_us"}.get(us, "")
    """returns None if accepted else 1-based index of the first line that no spec step explains"""
    path = os.path.join(wd, "trace_%s.ndjson" % tag)
    with open(path, "w") as f:
        for ln in lines:
            f.write(json.dumps(ln) + "\n")
    res = run_tlc("StunAgentTrace.tla", "StunAgentTrace_%s%s.cfg" % (transport, sfx), workers=1, timeout=1800,
                  env_extra={"TRACE": path}, java_opts="-Xss1g -Xmx4g -Dtlc2.tool.queue.IStateQueue=StateDeque")
    out = res["out"]
    os.remove(path)
    import re
    m = re.search(r'"REJECTED (\d+)"', out)
    if m:
        return int(m.group(1)), res
    if "Model checking completed" in out and "Error:" not in out:
        return None, res
    if "is violated" in out and "Action property" in out:
        # a step property of MCAgent failed on the recorded run: report the depth
        m2 = re.findall(r"^State (\d+):", out, flags=re.M)
        return (int(m2[-1]) - 1 if m2 else 1), res
    raise ToolError("trace validation did not run cleanly:\n" + "\n".join(l[:300] for l in out.splitlines()[-30:] if not l.startswith('"EXPECT')))


SELFTEST_KINDS = {"C05": ["drop_to_response", "missing_out"], "C06": ["until_plus_one", "wait_to_timeout"],
                  "C07": ["drop_to_response", "rcred"], "C15": ["spurious_val", "missing_val"],
                  "C18": ["pay_altered", "to_altered"], "C20": ["until_plus_one", "now_shifted"]}


def corrupt_line(kind, lines, start=0):
    """first line (from `start`) of an ACCEPTED trace to which corruption `kind` applies -> (index, corrupted copy) or None"""
    for i, ln in enumerate(lines):
        if i < start:
            continue
        ret = ln.get("ret") or {}
        c = json.loads(json.dumps(ln))
        if kind == "until_plus_one" and ln["ev"] == "poll" and ret.get("k") == "wait" and ln["out"]:
            c["ret"]["until"] += 1
        elif kind == "wait_to_timeout" and ln["ev"] == "poll" and ret.get("k") == "wait" and ln["out"]:
            c["ret"] = {"k": "timeout", "tid": ln["out"][0][0]}
        elif kind == "now_shifted" and ln["ev"] == "poll" and ret.get("k") == "transmit" and ln["now"] >= 0:
            c["now"] += 1          # the retransmission is logged one millisecond later: every later wake-up of it is off by one
        elif kind == "drop_to_response" and ln["ev"] == "recv_resp" and ret.get("k") == "drop":
            c["ret"] = {"k": "response"}
        elif kind == "missing_out" and ln["ev"] == "send_req" and ret.get("k") == "transmit":
            c["out"] = [x for x in ln["out"] if x[0] != ln["tid"]]
        elif kind == "rcred" and ln["ev"] == "recv_resp" and ln["rcred"] != "k3":
            c["rcred"] = "k3"
        elif kind == "spurious_val" and ln["ev"] in ("send_req", "poll") and len(ln["val"]) < 6 and "out" in ln:
            c["val"] = ln["val"] + [a for a in ("a1", "a2", "a3", "a4", "a5", "a6") if a not in ln["val"]][:1]
        elif kind == "missing_val" and ln["ev"] == "recv_other" and ln["from"] in ln["val"]:
            c["val"] = [a for a in ln["val"] if a != ln["from"]]
        elif kind == "pay_altered" and ln["ev"] == "poll" and ret.get("k") == "transmit":
            c["ret"]["pay"] = [x for x in ("p1", "p2", "p3") if x != ret["pay"]][0]
        elif kind == "to_altered" and ln["ev"] == "poll" and ret.get("k") == "transmit":
            c["ret"]["to"] = [x for x in ("a1", "a2", "a3") if x != ret["to"]][0]
        else:
            continue
        return i, c
    return None


def binding_selftest(pid, flat, transport, wd, us_mode):
    """The binding demonstrated on this very run: a trace TLC has just accepted is corrupted in ONE field of ONE line (two
    corruptions that concern this property) and must now be rejected - at that line for a corrupted observation, at the
    latest a few polls later for a shifted instant.  A corruption that is still accepted means the trace specification
    does not constrain that field: a tool error (exit 2), never a verdict about the code."""
    done = []
    for kind in SELFTEST_KINDS.get(pid, []):
        hit = corrupt_line(kind, flat)
        if hit is None:
            done.append({"kind": kind, "applied": False})
            continue
        i, c = hit
        if kind == "now_shifted":
            # a retransmission logged 1 ms late shows only if the same transaction is polled again before it completes:
            # take the first such retransmission (one that is followed, in its history, by a wait for an instant that this
            # very retransmission determines - the wake-up is exactly one of its intervals later)
            start = 0
            while hit is not None:
                i, c = hit
                j, seen = i + 1, False
                while j < len(flat) and flat[j]["ev"] != "reset" and not seen:
                    r = flat[j].get("ret") or {}
                    seen = flat[j]["ev"] == "poll" and r.get("k") == "wait" and len(flat[j]["out"]) == 1 and flat[j]["out"][0][0] == flat[i]["ret"].get("tid") \
                        and r.get("until", -1) > flat[i]["now"] and flat[j]["now"] >= flat[i]["now"]
                    j += 1
                if seen:
                    break
                start = i + 1
                hit = corrupt_line(kind, flat, start)
            if hit is None:
                done.append({"kind": kind, "applied": False})
                continue
        # (the history that contains the line, to its end: a shifted instant shows at a later poll)
        j = i + 1
        while j < len(flat) and flat[j]["ev"] != "reset":
            j += 1
        k = i
        while k > 0 and flat[k]["ev"] != "reset":
            k -= 1
        mutated = flat[k:i] + [c] + flat[i + 1:j]
        rej, _ = validate_trace(mutated, transport, wd, "selftest_%s" % kind, us=us_mode)
        at = None if rej is None else rej - (i - k) - 1          # 0 = at the corrupted line
        ok = rej is not None and (at == 0 or (kind == "now_shifted" and at >= 0))
        done.append({"kind": kind, "applied": True, "line": json.dumps(flat[i])[:160], "rejected_lines_after_the_corrupted_one": at, "ok": ok})
        if not ok:
            raise ToolError("binding self-test: the trace specification accepted (or rejected elsewhere: %s) a trace with corruption %s of %s" % (
                at, kind, json.dumps(flat[i])[:300]))
    return done


def b2(pid, tier, seed, wd, rep):
    nh = 120 if tier == "quick" else 2500
    nsteps = 90
    stats = dict(histories=0, events=0, trace_lines=0, rejected=0, tlc_runs=0, t=0.0, line_kinds={})
    t0 = time.time()
    for transport in ("udp", "tcp"):
        rng = random.Random(seed * 1000003 + (1 if transport == "udp" else 2))
        scripts = [rand_history(rng, "%s/h%d" % (transport, i), transport, nsteps, us=(i % 4 == 3), crowd=(i == 1))
                   for i in range(nh if transport == "udp" else nh // 2)]
        scripts += [special_history(rng, "%s/%s%d" % (transport, kind, j), transport, kind)
                    for kind in ("many", "forged", "attrs") for j in range(1 if tier == "quick" else 6)]
        out = run_scripts(scripts, wd, "b2" + transport)
        if pid == "C20":
            # the same histories again in other agent instances (another thread, decoy agents, later in the process):
            # up to the first poll that resolves a tie differently (HashMap order, the only legitimate nondeterminism)
            # every answer and the visible state must be the same
            again = [dict(sc, id=sc["id"] + "/again", thread=True, decoys=2, twin=(k % 2 == 0)) for k, sc in enumerate(scripts)]
            out2 = run_scripts(again, wd, "b2again" + transport)
            for sc in scripts:
                e1, e2 = out[sc["id"]], out2[sc["id"] + "/again"]
                for si, (a, b) in enumerate(zip(e1, e2)):
                    if a["a"] == "poll" and a["ret"] != b["ret"]:
                        if a["ret"].get("k") != "wait" and b["ret"].get("k") != "wait" and a["ret"].get("tid") != b["ret"].get("tid"):
                            break                       # a tie: two requests were due, each run served another one
                    if a["ret"] != b["ret"] or a["obs"] != b["obs"] or a.get("probe") != b.get("probe"):
                        stats["rejected"] += 1
                        rep.violation("%s step %d: the same history in another agent instance answers differently: %s / %s vs %s / %s" % (
                            sc["id"], si, json.dumps(a["ret"])[:150], json.dumps(a["obs"])[:200], json.dumps(b["ret"])[:150], json.dumps(b["obs"])[:200]),
                            {"kind": "agent_script", "script": sc})
                        break
        hist_lines = []
        for sc in scripts:
            evs = out[sc["id"]]
            lines = [dict(ev="reset")]
            bad = None
            for si, ev in enumerate(evs):
                ls, side = event_to_trace_lines(ev, transport)
                if side:
                    bad = (si, "; ".join(side), ["C18"] if "transmission" in side[0] else AGENT_PROPS)
                    break
                lines += ls
                stats["events"] += 1
            if bad:
                si, what, props = bad
                if pid in props:
                    rep.violation("%s step %d: %s" % (sc["id"], si, what), {"kind": "agent_script", "script": sc})
                else:
                    for p in props:
                        rep.note_foreign(p)
                stats["rejected"] += 1
                continue
            if any(isinstance(ln.get("now"), int) and ln["now"] > 2000000000 for ln in lines):
                # (TLC integers are 32-bit: a microsecond history older than 2000 s cannot be judged - left out, counted)
                stats["skipped_beyond_32_bit"] = stats.get("skipped_beyond_32_bit", 0) + 1
                continue
            hist_lines.append((sc, lines))
            stats["histories"] += 1
            for ln in lines:
                k = ln["ev"] + ("/" + ln["ret"]["k"] if ln["ev"] in ("poll", "recv_resp", "send_req", "cancel", "configure") else "")
                stats["line_kinds"][k] = stats["line_kinds"].get(k, 0) + 1
        # validate in batches; on rejection drop that history and go on with the rest
        batch = 400
        groups = [[h for h in hist_lines if not h[0].get("us") and not h[0].get("many")], [h for h in hist_lines if h[0].get("us")],
                  [h for h in hist_lines if h[0].get("many")]]
        chunks = [(g[b0:b0 + batch], ("us" if g[0][0].get("us") else "many" if g[0][0].get("many") else ""), "%d_%d" % (gi, b0))
                  for gi, g in enumerate(groups) if g for b0 in range(0, len(g), batch)]
        for pending, us_mode, ctag in chunks:
            for _attempt in range(8):
                if not pending:
                    break
                flat = []
                owner = []
                for hi, (sc, lines) in enumerate(pending):
                    for ln in lines:
                        flat.append(ln)
                        owner.append(hi)
                rej, res = validate_trace(flat, transport, wd, "%s_%s" % (transport, ctag), us=us_mode)
                stats["tlc_runs"] += 1
                if rej is None:
                    stats["trace_lines"] += len(flat)
                    if "binding_selftest" not in stats and not us_mode and transport == "udp":
                        stats["binding_selftest"] = binding_selftest(pid, flat, transport, wd, us_mode)
                    break
                rej = min(rej, len(flat))
                hi = owner[rej - 1]
                sc, lines = pending[hi]
                line = flat[rej - 1]
                props = list(B2_OWNER.get(line["ev"], AGENT_PROPS))
                if line["ev"] in ("poll", "send_req") and (sc.get("us") or any("back" in st for st in sc["steps"])):
                    # histories with sub-millisecond instants / instants older than an earlier poll exist to expose an
                    # instant of one call leaking into another transaction's schedule (last clause of C20)
                    props.append("C20")
                stats["rejected"] += 1
                what = "%s: recorded run is not a behaviour of the specification at %s" % (sc["id"], json.dumps(line))
                if pid in props or (pid == "C20" and False):
                    rep.violation(what, {"kind": "agent_script", "script": sc, "rejected_line": line})
                else:
                    for p in props:
                        rep.note_foreign(p)
                stats["trace_lines"] += sum(len(x[1]) for x in pending[:hi])
                pending = pending[hi + 1:]
    stats["t"] = round(time.time() - t0, 1)
    # vacuity: every action of the trace specification, and every kind of answer, occurs in the recorded runs
    need = ["send_req/transmit", "send_req/err", "send_other", "recv_resp/drop", "recv_resp/response", "recv_other", "poll/wait", "poll/transmit",
            "poll/timeout", "poll/cancelled", "cancel/ok", "cancel/none", "cancel_rt", "configure/ok", "configure/none", "set_remote", "set_local", "reset"]
    missing = [k for k in need if not stats["line_kinds"].get(k)]
    if missing and stats["rejected"] == 0:
        raise ToolError("vacuity: the recorded runs never contain %s" % missing)
    return stats


def hook_validation(pid, tier, seed, wd, rep):
    """traces written by the cfg-guarded hooks inside the crate (complete internal state after every call): the
    repository's own agent tests, and random histories driven through a hooked build of the adapter.  Best effort."""
    import hooklib
    st = dict(repo_test_agents=0, repo_test_lines=0, random_histories=0, random_lines=0, rejected=0, notes=[])
    def judge(hists_by_transport, label):
        n_h = n_l = 0
        for transport, hists in hists_by_transport.items():
            if not hists:
                continue
            acc, rejected, nlines, runs = hooklib.validate(hists, transport, wd, label)
            n_h += acc
            n_l += nlines
            for key, line in rejected:
                st["rejected"] += 1
                props = B2_OWNER.get(line["ev"], AGENT_PROPS)
                what = "%s (agent %s): the crate's own trace is not a behaviour of the specification at %s" % (label, key, json.dumps(line)[:400])
                if pid in props:
                    rep.violation(what, {"kind": "hook_trace", "label": label, "line": line})
                else:
                    for p in props:
                        rep.note_foreign(p)
        return n_h, n_l
    trace, note = hooklib.run_repo_tests_hooked(wd)
    if trace is None:
        st["notes"].append(note)
    else:
        h = hooklib.convert(trace)
        st["repo_test_agents"], st["repo_test_lines"] = judge(h, "repository unit tests")
        if st["rejected"] == 0 and h.get("udp"):
            st["binding_selftest"] = hooklib.selftest(h["udp"], "udp", wd)
    hb = hooklib.build_hooked_harness()
    if hb is None:
        st["notes"].append("hooked adapter does not build on this tree (skipped)")
    else:
        nh = 60 if tier == "quick" else 1200
        for transport in ("udp", "tcp"):
            rng = random.Random(seed * 7 + (3 if transport == "udp" else 4))
            scripts = [rand_history(rng, "%s/k%d" % (transport, i), transport, 80) for i in range(nh if transport == "udp" else nh // 2)]
            files = []
            run_scripts(scripts, wd, "hook" + transport, binary=hb, hook_trace=files)
            hists = {"udp": [], "tcp": []}
            for fp in files:
                if os.path.exists(fp):
                    c = hooklib.convert(fp)
                    for k in c:
                        hists[k] += c[k]
                    os.remove(fp)
            a, b = judge(hists, "random histories (hooked adapter)")
            st["random_histories"] += a
            st["random_lines"] += b
    return st


# --------------------------------------------------------------------------- inductive invariant (Apalache) + its tie to StunAgent (TLC)
def ind_refinement(name):
    res = run_tlc("MCAgentInd.tla", "MCAgentInd_%s.cfg" % name, workers=4, timeout=3000)
    tlc_ok(res, "MCAgentInd " + name)
    return "ind_" + name, res


def apalache_agent(wd, tier):
    """spec/StunAgentInd.tla: Init0 => IndInv (length 0) and IndInv /\\ INext => IndInv' from ANY state satisfying it (length 1),
    plus a reachability witness (the arbitrary initial states are not all trivial).  The outcome cannot depend on the code:
    a violated invariant is a defect of the specification (tool error); an unavailable or slow Apalache is recorded and
    nothing more."""
    if shutil.which("apalache-mc") is None:
        return {"ran": False, "why": "apalache-mc not on PATH"}
    res = {}
    # (quick: one transaction - the invariant is per transaction and every action touches one; thorough: two, both transports)
    cases = [("udp_base", "ConstInitUdp", ["--init=Init0", "--inv=IndInv", "--length=0"], "NoError"),
             ("udp_step_1tid", "ConstInitUdp1", ["--init=IndInit", "--inv=IndInv", "--length=1"], "NoError")]
    if tier == "thorough":
        cases += [("udp_step", "ConstInitUdp", ["--init=IndInit", "--inv=IndInv", "--length=1"], "NoError"),
                  ("tcp_base", "ConstInitTcp", ["--init=Init0", "--inv=IndInv", "--length=0"], "NoError"),
                  ("tcp_step", "ConstInitTcp", ["--init=IndInit", "--inv=IndInv", "--length=1"], "NoError"),
                  ("udp_witness", "ConstInitUdp", ["--init=IndInit", "--inv=IndWitness", "--length=0"], "Error")]
    for name, cinit, args, want in cases:
        out_dir = os.path.join(wd, "apalache_" + name)
        t0 = time.time()
        try:
            p = subprocess.run(["apalache-mc", "check", "--cinit=" + cinit, "--next=INext", "--out-dir=" + out_dir] + args + ["StunAgentInd.tla"],
                               cwd=SPEC, capture_output=True, text=True, timeout=900 if tier == "quick" else 3000)
        except subprocess.TimeoutExpired:
            res[name] = {"outcome": "timeout"}
            continue
        finally:
            shutil.rmtree(out_dir, ignore_errors=True)
        txt = p.stdout + p.stderr
        got = "NoError" if "The outcome is: NoError" in txt else "Error" if "The outcome is: Error" in txt else "?"
        if got == "?":
            res[name] = {"outcome": "did not finish cleanly: " + txt[-200:]}
            continue
        if got != want:
            raise ToolError("StunAgentInd (%s): expected %s, Apalache says %s - the specification is wrong:\n%s" % (name, want, got, txt[-1500:]))
        res[name] = {"outcome": got, "t": round(time.time() - t0, 1)}
    return {"ran": True, "module": "StunAgentInd.tla",
            "statement": "Rel (the agent's record of every open transaction is the one the events determine) with ScheduleInv, CancelInv, PromiseInv and LifeInv at symbolic instants is inductive: all integer instants, no monotonicity, every initial_rto / last timeout >= 0, retransmits 0..8, the code's real default schedules, two transactions",
            **res}


# --------------------------------------------------------------------------- entry
def run(pid, tier, seed):
    rep = Report(pid, tier, seed, "model_checking")
    wd = workdir("agent_%s" % pid)
    build_harness()
    mcs = list(MC_FOR[pid]) + (MC_THOROUGH_EXTRA.get(pid, []) if tier == "thorough" else [])
    mcs = [m for m in mcs if os.path.exists(os.path.join(SPEC, "MCAgent_%s.cfg" % m))]
    states = transitions = 0
    mcstats = {}
    with cf.ThreadPoolExecutor(max_workers=6) as ex:
        futs = [ex.submit(mc_run, m) for m in mcs]
        apa = None
        if pid in ("C05", "C06"):
            # the Apalache-typed core is the same machine as StunAgent + ghost (TLC, every transition of a bounded model) ...
            futs += [ex.submit(ind_refinement, nm) for nm in (["time2"] if tier == "quick" else ["time2", "life2", "time1_tcp"])]
            # ... and its invariant is inductive (Apalache; C06 only in the quick tier, it takes a minute or two)
            if pid == "C06" or tier == "thorough":
                apa = ex.submit(apalache_agent, wd, tier)
        if pid == "C20":
            for nm in (["d7"] if tier == "quick" else ["d7", "d1", "d7_time"]):
                if os.path.exists(os.path.join(SPEC, "StunAgentShift_%s.cfg" % nm)):
                    futs.append(ex.submit(shift_run, nm))
        # meanwhile: B1 on every LTS model (serial here; each uses up to 12 adapter processes)
        b1stats = []
        models = list(LTS_QUICK)
        with cf.ProcessPoolExecutor(max_workers=8 if tier == "quick" else 4) as pex:
            pf = [pex.submit(b1_model, pid, tier, seed, model, wd) for model in models]
            b2stats = b2(pid, tier, seed, wd, rep)
            hookstats = hook_validation(pid, tier, seed, wd, rep)
            exstats = exchange_binding(pid, tier, seed, wd, rep) if pid in ("C05", "C07", "C15") else None
            pairstats = pair_binding(pid, tier, seed, wd, rep) if pid in ("C05", "C07", "C15", "C18") else None
            if pid == "C06":
                from tcpxcheck import tcpx_binding
                pairstats = {"stun_over_byte_streams": tcpx_binding(pid, tier, seed, wd, rep)}
            for f in pf:
                st = f.result()
                for props, what, replay in st.pop("findings"):
                    if pid in props:
                        rep.violation(what, replay)
                    else:
                        for p in props:
                            rep.note_foreign(p)
                b1stats.append(st)
        for f in futs:
            name, res = f.result()
            mcstats[name] = dict(generated=res["generated"], distinct=res["distinct"], wall=round(res["wall"], 1))
            states += res["distinct"]
            transitions += res["generated"]
    if apa is not None:
        rep.add_cov(apalache_inductive_invariant=apa.result())
    for st in b1stats:
        states += st["tlc_distinct"]
        transitions += st["tlc_generated"]
    traces = sum(s["scripts"] for s in b1stats) + b2stats["histories"] + hookstats["repo_test_agents"] + hookstats["random_histories"]
    samples = [s["sample"] for s in b1stats if s.get("sample")][:3]
    # non-vacuity: every kind of reply occurred on the LTS edges that were driven
    labels = {}
    for s in b1stats:
        for k, v in s["labels"].items():
            labels[k] = labels.get(k, 0) + v
    need = ["poll:timeout", "poll:cancelled", "poll:transmit", "poll:wait", "recv/response:response", "recv/response:drop",
            "send/request:err", "send/request:transmit"]
    missing = [k for k in need if labels.get(k, 0) == 0]
    if missing:
        raise ToolError("vacuity: LTS models never produced " + ",".join(missing))
    rep.add_cov(states=states, transitions=transitions, traces_validated_against_impl=traces, samples=samples,
                model_checking=mcstats,
                lts_replay=[{k: s[k] for k in ("model", "lts_states", "lts_edges", "scripts", "steps", "truncated", "nondet_scripts", "mismatches", "t")} for s in b1stats],
                trace_validation=b2stats, hook_trace_validation=hookstats, client_server_exchange=exstats, two_agents_facing_each_other=pairstats, edge_labels_driven=labels,
                rule="B1: every (state,input) pair of each dumped LTS (tour) + all input words to depth %d + random walks, executed on the real StunAgent under several time scales/algorithms and followed through the LTS; B2: random histories with real ms values validated by TLC against StunAgentTrace" % (3 if tier == "quick" else 4))
    rep.assumptions += ["HMAC validity is abstracted to key identity in the agent model (byte-level truth is C04)",
                        "bounded models: 2 concurrent transactions, short schedules, small clock; beyond that sampled by B2",
                        "TLC and the Json/IOUtils community modules are trusted"]
    shutil.rmtree(wd, ignore_errors=True)
    return rep.finish()


# --------------------------------------------------------------------------- client / server / network exchange
def ex_key_of_act(act, src, dst):
    n = act["name"]
    if n == "server":
        return ("server", act["tid"], bool(act["keep"]))
    if n == "lose":
        return ("lose", act["tid"], act["dir"])
    if n == "recv":
        keep = dst["ndup"] == src["ndup"] + 1
        return ("client_recv", act["tid"], keep)
    return input_key(act)


def ex_key_to_step(k):
    if k[0] == "server":
        return {"a": "server", "tid": k[1], "keep": k[2]}
    if k[0] == "lose":
        return {"a": "lose", "tid": k[1], "dir": k[2]}
    if k[0] == "client_recv":
        return {"a": "client_recv", "tid": k[1], "keep": k[2]}
    return key_to_step(k)


def ex_step_key(ev):
    a = ev["a"]
    if a == "server":
        return ("server", ev["tid"], bool(ev["keep"]))
    if a == "lose":
        return ("lose", ev["tid"], ev["dir"])
    if a == "client_recv":
        return ("client_recv", ev["tid"], bool(ev["keep"]))
    return step_to_key(ev)


def exchange_binding(pid, tier, seed, wd, rep):
    """StunExchange.tla: a real client StunAgent, a stateless server built from the library's own calls and a lossy,
    duplicating network, driven through every (state, input) pair of the model's LTS"""
    t0 = time.time()
    mc = run_tlc("StunExchange.tla", "StunExchange_mc1.cfg", workers=4, timeout=3000)
    tlc_ok(mc, "StunExchange mc1")
    if tier == "thorough":
        # two concurrent transactions: 7.7x10^6 states, 1.2x10^8 transitions
        mc2 = run_tlc("StunExchange.tla", "StunExchange_mc.cfg", workers=8, timeout=6000)
        tlc_ok(mc2, "StunExchange mc (2 transactions)")
        mc["distinct"] += mc2["distinct"]
        mc["generated"] += mc2["generated"]
    path = os.path.join(wd, "exchange.lts")
    res = run_tlc("StunExchange.tla", "StunExchange_lts.cfg", workers=1, timeout=3000, out_path=path)
    tlc_ok(res, "StunExchange LTS")
    l = LTS()
    tids_sorted = None
    with open(path) as f:
        for ln in f:
            if not ln.startswith('"EDGE '):
                continue
            e = json.loads(json.loads(ln)[5:])
            s, d = l.sid(e["src"]), l.sid(e["dst"])
            if l.init is None:
                l.init = s
            k = ex_key_of_act(e["act"], e["src"], e["dst"])
            l.trans[s].setdefault(k, []).append((e["act"].get("reply"), d))
            l.nedges += 1
    os.remove(path)
    rng = random.Random(seed + 77)
    words = gen_tour(l, maxlen=30) + gen_random_walks(l, 200 if tier == "quick" else 3000, 40, rng)
    model_tids = [1]
    scripts = []
    for i, w in enumerate(words):
        sc = {"id": "ex/%d" % i, "seed": i + seed, "transport": "udp", "scale": [1, 500, 60000][i % 3], "probe": True, "ntids": 4,
              "install": [1, 2, 1], "exchange": True, "max_flight": 2, "server_key": "k1", "steps": [ex_key_to_step(k) for k in w],
              "req_alg": ALGS[i % 3], "resp_alg": ALGS[(i // 3) % 3], "cred_variant": (i // 2) % 5, "seal": "ext" if i % 2 else "lib"}
        scripts.append(sc)
    out = run_scripts(scripts, wd, "exchange")
    steps = mism = 0
    for sc in scripts:
        s = l.init
        scale = sc["scale"]
        for si, ev in enumerate(out[sc["id"]]):
            key = ex_step_key(ev)
            edges = l.trans[s].get(key)
            if edges is None:
                break
            a = ev["a"]
            ret = ev["ret"]
            props = what = None
            if a in ("server", "lose"):
                if ret.get("k") not in ("server", "ok"):
                    props, what = ["C05", "C07", "C02", "C16"], "the server built from the library did not answer a client request: %s" % json.dumps(ret)[:200]
                cand = edges
            else:
                ev2 = dict(ev)
                if a == "client_recv":
                    ev2["a"] = "recv"
                    if ret.get("k") == "response" and (ret.get("same") is not True or ret.get("mapped_ok") is not True):
                        props, what = ["C05", "C13"], "response handed up is not the server's answer (id or mapped address): %s" % json.dumps(ret)
                obs = abs_reply(ev2, scale)
                cand = [(r, d) for (r, d) in edges if reply_matches(r, obs, scale)]
                if not cand and not props:
                    fake_key = ("recv", "response", key[1], "srv", "k1") if a == "client_recv" else key
                    props = classify_reply(l, s, fake_key, ev2, [r for r, _ in edges], obs)
                    what = "implementation answered %s, specification allows %s" % (canon(obs), canon([r for r, _ in edges]))
            if not props:
                r, d = cand[0]
                dst = l.states[d]
                got = norm_obs(ev["obs"])
                exp_out = sorted([[o["tid"], o["to"]] for o in dst["out"]])
                net = ev.get("net", {})
                if got["out"] != exp_out:
                    props, what = ["C05"], "outstanding %s, specification %s" % (got["out"], exp_out)
                elif got["val"] != sorted(dst["val"]):
                    props, what = ["C15"], "validated %s, specification %s" % (got["val"], dst["val"])
                elif got["rcred"] != dst["rcred"]:
                    props, what = ["C07"], "remote credentials %s, specification %s" % (got["rcred"], dst["rcred"])
                elif [net["c2s"][t] for t in model_tids] != dst["c2s"] or [net["s2c"][t] for t in model_tids] != dst["s2c"]:
                    props, what = ["C18", "C05"], "datagrams in flight %s, specification c2s=%s s2c=%s" % (net, dst["c2s"], dst["s2c"])
                elif "probe" in ev and dst["probe"] not in ("idle", "skip") and not (ev["probe"].get("k") == "wait" and ev["probe"].get("until_ms") == int(dst["probe"]) * scale):
                    props, what = ["C06"], "early poll answered %s, specification wait until %s" % (json.dumps(ev["probe"]), dst["probe"])
                else:
                    s = d
                    steps += 1
                    continue
            mism += 1
            text = "exchange %s step %d %s: %s" % (sc["id"], si, canon(key), what)
            if pid in props:
                rep.violation(text, {"kind": "agent_script", "script": sc})
            else:
                for p in props:
                    rep.note_foreign(p)
            break
    return dict(model_states=mc["distinct"], model_transitions=mc["generated"], lts_edges=l.nedges, scripts=len(scripts), steps=steps,
                mismatches=mism, t=round(time.time() - t0, 1))
