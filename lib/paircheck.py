"""StunPair.tla bound to two real StunAgents: the LTS of the bounded model is dumped by TLC, its labels drive two agents
facing each other over an in-memory datagram network (adapter mode `pair`), and after every step the reply and the
API-visible state of BOTH agents must be an outcome the LTS has for that label.  Python follows labels and compares for
equality; it implements no STUN rule."""
import json, os, random, subprocess, time

from common import run_tlc, ToolError, STUNH, tlc_ok
from agentlib import canon

ALGS = ["sha1", "sha256"]


def lbl_key(l):
    op = l["op"]
    who = l.get("who", "-")
    if op == "send":
        return (who, op, l["tid"], bool(l["sealed"]))
    if op in ("recv_req", "recv_resp"):
        return (who, op, l["tid"], bool(l["keep"]))
    if op == "set_remote":
        return (who, op, l["key"])
    if op == "cancel":
        return (who, op, l["tid"])
    if op == "lose":
        return (who, op, l["kind"], l["tid"])
    if op == "tick":
        return ("-", op, l["d"])
    return (who, op)


class PairLts:
    def __init__(self):
        self.ids = {}
        self.states = []
        self.trans = []
        self.lbl = {}
        self.nedges = 0
        self.init = None

    def sid(self, st_json):
        i = self.ids.get(st_json)
        if i is None:
            i = len(self.states)
            self.ids[st_json] = i
            self.states.append(None)
            self.trans.append({})
        return i

    @staticmethod
    def load(path, keyfn=None):
        keyfn = keyfn or lbl_key
        l = PairLts()
        with open(path) as f:
            for ln in f:
                if not ln.startswith('"EDGE '):
                    continue
                src, lbl, reply, dst = json.loads(json.loads(ln)[5:])
                s, d = l.sid(canon(src)), l.sid(canon(dst))
                if l.states[s] is None:
                    l.states[s] = src
                if l.states[d] is None:
                    l.states[d] = dst
                if l.init is None:
                    l.init = s
                k = keyfn(lbl)
                l.lbl.setdefault(k, lbl)
                l.trans[s].setdefault(k, []).append((reply, d))
                l.nedges += 1
        return l


def tour(l, maxlen, budget):
    """input words from the initial state that together drive every (state, label) pair (until the step budget is spent)"""
    # breadth-first access paths
    par = {l.init: None}
    q = [l.init]
    while q:
        nq = []
        for s in q:
            for k, outs in l.trans[s].items():
                for (_r, d) in outs:
                    if d not in par:
                        par[d] = (s, k)
                        nq.append(d)
        q = nq

    def path(s):
        w = []
        while par[s] is not None:
            p, k = par[s]
            w.append(k)
            s = p
        return w[::-1]

    uncovered = [set(t.keys()) for t in l.trans]
    order = sorted(par.keys(), key=lambda s: -len(path(s)))
    words = []
    spent = 0
    for s0 in order:
        while uncovered[s0] and spent < budget:
            w = path(s0)
            s = s0
            while len(w) < maxlen:
                if uncovered[s]:
                    k = uncovered[s].pop()
                else:
                    k = next((kk for kk, outs in l.trans[s].items() if uncovered[outs[0][1]]), None)
                    if k is None:
                        break
                w.append(k)
                s = l.trans[s][k][0][1]
            words.append(w)
            spent += len(w)
    left = sum(len(u) for u in uncovered)
    return words, left


def walks(l, n, depth, rng):
    ws = []
    for _ in range(n):
        s = l.init
        w = []
        for _ in range(depth):
            keys = list(l.trans[s].keys())
            if not keys:
                break
            k = rng.choice(keys)
            if ("tick" in k[:2] or "set_remote" in k[:2]) and rng.random() < 0.6:
                k = rng.choice(keys)
            w.append(k)
            s = rng.choice(l.trans[s][k])[1]
        ws.append(w)
    return ws


def run_pair_scripts(scripts, wd, tag, mode="pair"):
    n = len(scripts)
    nproc = min(6, max(1, n // 100))
    procs = []
    for ci in range(nproc):
        ip = os.path.join(wd, "%s.%d.in" % (tag, ci))
        op = os.path.join(wd, "%s.%d.out" % (tag, ci))
        with open(ip, "w") as f:
            for sc in scripts[ci::nproc]:
                f.write(json.dumps(sc) + "\n")
        procs.append((subprocess.Popen([STUNH, mode, ip, op], stderr=subprocess.PIPE, text=True), ip, op))
    for p, ip, op in procs:
        _, err = p.communicate()
        if p.returncode != 0:
            raise ToolError("harness %s failed: " % mode + err[-2000:])
        with open(op) as f:
            for ln in f:
                r = json.loads(ln)
                yield r["id"], r["events"]
        os.remove(ip)
        os.remove(op)


def reply_ok(spec, ret, lbl, scale, clock):
    """does what the implementation answered agree with this outcome of the specification?"""
    op = lbl["op"]
    k = spec.get("k")
    if op in ("tick", "set_remote", "lose"):
        return ret.get("k") == "-"
    if op == "cancel":
        return ret.get("k") == k
    if op == "send":
        if k == "err":
            return ret.get("k") == "err" and ret.get("e") == spec["e"]
        return ret.get("k") == "transmit" and ret.get("tid") == lbl["tid"] and ret.get("to") == spec["to"] and ret.get("addressed") is True and ret.get("request") is True
    if op == "poll":
        if k == "wait":
            if ret.get("k") != "wait":
                return False
            return True if spec["idle"] else ret.get("until_ms") == spec["until"] * scale
        if k == "transmit":
            return ret.get("k") == "transmit" and ret.get("tid") == spec["tid"] and ret.get("to") == spec["to"] and ret.get("addressed") is True and ret.get("request") is True
        return ret.get("k") == k and ret.get("tid") == spec["tid"]
    if op == "recv_req":
        return ret.get("k") == "incoming" and ret.get("same") is True and ret.get("is_request") is True
    if op == "recv_resp":
        if k == "response":
            return ret.get("k") == "response" and ret.get("same") is True and ret.get("mapped_ok") is True
        return ret.get("k") == "drop"
    return False


def owners_of_reply(lbl, spec_replies, ret, src_side):
    op = lbl["op"]
    if ret.get("k") == "panic":
        return ["C05", "C06", "C07", "C15", "C18", "C20"]
    if op == "send":
        return ["C18"] if ret.get("k") == "transmit" else ["C05"]
    if op == "poll":
        ks = {r["k"] for r in spec_replies}
        if ret.get("k") in ks and ret.get("k") == "transmit":
            return ["C18", "C05"]
        if ret.get("k") == "wait" and "wait" in ks:
            return ["C06"]
        return ["C05", "C06"]
    if op == "recv_req":
        return ["C05", "C15"]
    if op == "recv_resp":
        o = [x for x in src_side[0] if x[0] == lbl["tid"]]
        if not o:
            return ["C05"]
        return ["C07"] if o[0][1] else ["C05", "C07"]
    return ["C05"]


def side_mismatch(name, got, want, tids):
    """compare the API-visible state of one side with the specification's state <<out, val, rcred, req, resp>>"""
    out, val, rcred, req, resp = want
    if got["out"] != [o[0] for o in out]:
        return ["C05"], "side %s: outstanding %s, specification %s" % (name, got["out"], [o[0] for o in out])
    if got["peers_ok"] is not True:
        return ["C18"], "side %s: a request's peer address is not the peer" % name
    if got["val"] != val or got["val_other"]:
        return ["C15"], "side %s: peer validated=%s (others: %s), specification %s" % (name, got["val"], got["val_other"], val)
    if got["rcred"] != rcred:
        return ["C07"], "side %s: remote credentials %s, specification %s" % (name, got["rcred"], rcred)
    if [got["req"][t] for t in tids] != req or [got["resp"][t] for t in tids] != resp:
        return ["C18", "C05"], "side %s: datagrams in flight towards it req=%s resp=%s, specification %s %s" % (name, got["req"], got["resp"], req, resp)
    return None, None


def pair_binding(pid, tier, seed, wd, rep):
    t0 = time.time()
    mc = run_tlc("StunPair.tla", "StunPair_mc1.cfg" if tier == "quick" else "StunPair_mc.cfg", workers=6, timeout=3000)
    tlc_ok(mc, "StunPair model checking")
    path = os.path.join(wd, "pair.lts")
    res = run_tlc("StunPair.tla", "StunPair_lts.cfg", workers=1, timeout=3000, out_path=path)
    tlc_ok(res, "StunPair LTS")
    l = PairLts.load(path)
    os.remove(path)
    rng = random.Random(seed + 4242)
    budget = 250000 if tier == "quick" else 3000000
    words, left = tour(l, 30, budget)
    words += walks(l, 300 if tier == "quick" else 4000, 40, rng)
    model_tids = [1]
    scripts = {}
    for i, w in enumerate(words):
        sc = {"id": "pair/%d" % i, "seed": i + seed, "scale": [1, 500, 60000][i % 3], "ntids": 3, "install": [1, 1, 1], "max_flight": 1,
              "resp_key_a": "k1", "resp_key_b": "none", "steps": [l.lbl[k] for k in w], "req_alg": ALGS[i % 2], "resp_alg": ALGS[(i // 2) % 2],
              "cred_variant": (i // 2) % 5, "fingerprint": i % 3 != 0, "remote_addr": i % 5 == 0}
        scripts[sc["id"]] = sc
    steps = mism = trunc = 0
    seen_ops = {}
    for sid_, events in run_pair_scripts(list(scripts.values()), wd, "pair"):
        sc = scripts[sid_]
        s = l.init
        scale = sc["scale"]
        for si, ev in enumerate(events):
            lbl = sc["steps"][si] if si < len(sc["steps"]) else None
            if lbl is None or ev.get("i") != si:
                props, what = ["C05", "C06", "C07", "C15", "C18", "C20"], "the adapter did not complete the script: %s" % json.dumps(ev.get("ret"))[:200]
            else:
                key = lbl_key(lbl)
                edges = l.trans[s].get(key)
                if edges is None:
                    trunc += 1      # a nondeterministic outcome went the other way than the word was planned for
                    break
                ret = ev["ret"]
                cand = [(r, d) for (r, d) in edges if reply_ok(r, ret, lbl, scale, ev["clock"])]
                props = what = None
                if not cand:
                    src = l.states[s]
                    who = lbl.get("who")
                    props = owners_of_reply(lbl, [r for r, _ in edges], ret, src[0] if who == "a" else src[1])
                    what = "implementation answered %s, specification allows %s" % (json.dumps(ret)[:200], canon([r for r, _ in edges])[:300])
                else:
                    best = None
                    for (r, d) in cand:
                        dst = l.states[d]
                        p1, w1 = side_mismatch("a", ev["obs"]["a"], dst[0], model_tids)
                        if p1 is None:
                            p1, w1 = side_mismatch("b", ev["obs"]["b"], dst[1], model_tids)
                        if p1 is None:
                            best = d
                            break
                        props, what = p1, w1
                    if best is not None:
                        s = best
                        steps += 1
                        kk = "%s:%s" % (lbl["op"], ret.get("k"))
                        seen_ops[kk] = seen_ops.get(kk, 0) + 1
                        continue
            mism += 1
            text = "two agents %s step %d %s: %s" % (sc["id"], si, canon(lbl), what)
            if pid in props:
                rep.violation(text, {"kind": "pair_script", "script": sc})
            else:
                for p in props:
                    rep.note_foreign(p)
            break
    need = ["recv_req:incoming", "recv_resp:response", "recv_resp:drop", "poll:timeout", "poll:transmit", "send:err"]
    missing = [k for k in need if not seen_ops.get(k)]
    if missing and mism == 0:
        raise ToolError("vacuity: the two-agent runs never produced " + ",".join(missing))
    return dict(model_states=mc["distinct"], model_transitions=mc["generated"], lts_states=len(l.states), lts_edges=l.nedges,
                scripts=len(scripts), steps=steps, state_label_pairs_not_toured=left, truncated_scripts=trunc, mismatches=mism, outcomes=seen_ops,
                t=round(time.time() - t0, 1))


def replay_pair(script, wd):
    """re-run one script; returns the adapter's events (used by ./check --replay)"""
    return dict(run_pair_scripts([script], wd, "pair_replay"))
