"""Shared plumbing for the checks: paths, TLC runner, harness build, evidence, violations.

Python here only orchestrates: all knowledge about STUN lives in /verif/spec/*.tla (decided by
TLC) and all contact with the implementation goes through /verif/harness (Rust adapter).
Exit codes: 0 property held on everything explored; 1 VIOLATION (with replay file); 2 tooling.
"""
import hashlib
import json
import os
import re
import shutil
import subprocess
import sys
import time

ROOT = os.path.dirname(os.path.dirname(os.path.abspath(__file__)))
SPEC = os.path.join(ROOT, "spec")
HARNESS = os.path.join(ROOT, "harness")
WORK = os.path.join(ROOT, "work")
EVID = os.path.join(ROOT, "evidence")
REPLAYS = os.path.join(ROOT, "replays")
REPO = os.environ.get("VERIF_REPO", "/repo")     # (selftest/try_isolated.sh points a copy of /verif at a scratch worktree)
STUNH = os.path.join(HARNESS, "target", "debug", "stunh")
KNOWN = os.path.join(ROOT, "known_findings.json")


class ToolError(Exception):
    pass


def log(*a):
    print(*a, file=sys.stderr, flush=True)


def seed_from_env(default=1):
    try:
        return int(os.environ.get("VERIF_SEED", default))
    except ValueError:
        return default


def workdir(name):
    d = os.path.join(WORK, name)
    shutil.rmtree(d, ignore_errors=True)
    os.makedirs(d, exist_ok=True)
    return d


def build_harness():
    """(Re)build the adapter against /repo's current working tree (path dependencies)."""
    t0 = time.time()
    env = dict(os.environ, CARGO_NET_OFFLINE="true")
    lock = os.path.join(HARNESS, "Cargo.lock")
    if not os.path.exists(lock):
        shutil.copy(os.path.join(REPO, "Cargo.lock"), lock)
    # serialise concurrent builds (several checks may be started at once)
    import fcntl
    os.makedirs(WORK, exist_ok=True)
    with open(os.path.join(WORK, ".build.lock"), "w") as lk:
        fcntl.flock(lk, fcntl.LOCK_EX)
        p = subprocess.run(["cargo", "build", "--offline", "--quiet"], cwd=HARNESS, env=env,
                           stdout=subprocess.PIPE, stderr=subprocess.STDOUT, text=True)
    if p.returncode != 0:
        sys.stderr.write(p.stdout[-6000:])
        raise ToolError("harness build failed (does /repo still compile?)")
    return time.time() - t0


def run_harness(args, timeout=3600):
    p = subprocess.run([STUNH] + args, stdout=subprocess.PIPE, stderr=subprocess.PIPE, text=True, timeout=timeout)
    if p.returncode != 0:
        raise ToolError("harness %s failed rc=%s: %s" % (args[:1], p.returncode, p.stderr[-2000:]))
    return p.stdout


TLC_JAR = "/opt/veriftools/tla/tla2tools.jar"


def run_tlc(module, cfg, workers=4, timeout=1800, env_extra=None, java_opts="", cwd=SPEC, metadir=None,
            extra_args=None, simulate=None, out_path=None):
    """Run TLC; returns dict(out=str, rc, generated, distinct, wall).  Output may be large: if out_path is
    given the raw output is streamed there and `out` holds only non-EDGE lines."""
    import uuid
    md = metadir or os.path.join(WORK, "tlc", "%s-%s-%d-%s" % (module, os.path.basename(cfg), os.getpid(), uuid.uuid4().hex[:8]))
    shutil.rmtree(md, ignore_errors=True)
    os.makedirs(md, exist_ok=True)
    cmd = ["tlc", "-workers", str(workers), "-metadir", md, "-cleanup", "-noGenerateSpecTE", "-config", cfg]
    if extra_args:
        cmd += extra_args
    cmd += [module]
    env = dict(os.environ)
    # a bounded heap for every TLC run (the JVM default is a quarter of the machine's memory per process, and the agent
    # checks run eight models side by side): the models here need far less, and a run that does need more fails as a
    # tool error instead of taking the machine down
    if "-Xmx" not in java_opts:
        java_opts = (java_opts + " -Xmx4g").strip()
    if java_opts:
        env["JAVA_TOOL_OPTIONS"] = java_opts
    if env_extra:
        env.update(env_extra)
    t0 = time.time()
    try:
        if out_path:
            with open(out_path, "w") as f:
                p = subprocess.run(cmd, cwd=cwd, env=env, stdout=f, stderr=subprocess.STDOUT, timeout=timeout)
            lines = []
            with open(out_path) as f:
                for ln in f:
                    if not ln.startswith('"EDGE') and not ln.startswith('"CASE'):
                        lines.append(ln)
            out = "".join(lines)
        else:
            p = subprocess.run(cmd, cwd=cwd, env=env, stdout=subprocess.PIPE, stderr=subprocess.STDOUT, text=True,
                               timeout=timeout)
            out = p.stdout
    except subprocess.TimeoutExpired:
        raise ToolError("TLC timeout on %s %s" % (module, cfg))
    finally:
        shutil.rmtree(md, ignore_errors=True)
    wall = time.time() - t0
    m = re.search(r"(\d+) states generated, (\d+) distinct states found", out)
    res = dict(out=out, rc=p.returncode, wall=wall,
               generated=int(m.group(1)) if m else 0, distinct=int(m.group(2)) if m else 0)
    return res


def tlc_ok(res, what):
    """A model-checking run of the specification itself must be clean; otherwise it is a tooling/spec
    problem (exit 2), never a verdict about the code."""
    out = res["out"]
    if res["rc"] != 0 or "Error:" in out or "is violated" in out or "Model checking completed" not in out:
        tail = "\n".join(l[:300] for l in out.splitlines()[-40:])
        raise ToolError("TLC run '%s' was not clean (rc=%s):\n%s" % (what, res["rc"], tail))


def sany_all():
    for f in sorted(os.listdir(SPEC)):
        if f.endswith(".tla"):
            p = subprocess.run(["tla-sany", f], cwd=SPEC, stdout=subprocess.PIPE, stderr=subprocess.STDOUT, text=True)
            if p.returncode != 0 or "error" in p.stdout.lower().replace("errors: 0", ""):
                if "Semantic errors" in p.stdout or "Parse Error" in p.stdout or p.returncode != 0:
                    raise ToolError("SANY failed on %s:\n%s" % (f, p.stdout[-2000:]))


def load_known():
    if not os.path.exists(KNOWN):
        return {"findings": [], "fixed": []}
    with open(KNOWN) as f:
        return json.load(f)


class Report:
    """Collects violations and coverage for one property check and writes evidence/exit code."""

    def __init__(self, pid, tier, seed, level):
        self.pid, self.tier, self.seed, self.level = pid, tier, seed, level
        self.t0 = time.time()
        self.violations = []      # (what, replay_obj)
        self.known_hits = {}      # finding id -> count
        self.foreign = {}         # other property id -> count of mismatches attributed elsewhere
        self.cov = {}
        self.assumptions = []
        self.asis = []
        self.known = load_known()

    def add_cov(self, **kw):
        for k, v in kw.items():
            if isinstance(v, int) and isinstance(self.cov.get(k), int):
                self.cov[k] += v
            elif isinstance(v, list) and isinstance(self.cov.get(k), list):
                self.cov[k] += v
            else:
                self.cov[k] = v

    def violation(self, what, replay):
        """what: short text; replay: JSON-serialisable object sufficient to reproduce."""
        for f in self.known["findings"]:
            if f["property"] == self.pid and re.search(f["match"], what):
                self.known_hits[f["id"]] = self.known_hits.get(f["id"], 0) + 1
                return
        self.violations.append((what, replay))

    def note_foreign(self, pid):
        self.foreign[pid] = self.foreign.get(pid, 0) + 1

    def finish(self):
        os.makedirs(EVID, exist_ok=True)
        os.makedirs(REPLAYS, exist_ok=True)
        for f in self.known["findings"]:
            if f["property"] == self.pid and f["id"] in self.known_hits:
                print("KNOWN-FINDING: property=%s %s (%d cases)" % (self.pid, f["what"], self.known_hits[f["id"]]))
        lines = []
        seen = set()
        for what, replay in self.violations:
            h = hashlib.sha1(json.dumps(replay, sort_keys=True).encode()).hexdigest()[:12]
            if h in seen:
                continue
            seen.add(h)
            if len(seen) > 20:
                break
            path = os.path.join(REPLAYS, "%s-%s.json" % (self.pid, h))
            with open(path, "w") as f:
                json.dump({"property": self.pid, "what": what, "replay": replay}, f, indent=1)
            lines.append("VIOLATION property=%s replay=%s" % (self.pid, path))
            log("  ", what[:400])
        cov = dict(self.cov)
        cov.setdefault("samples", [])
        cov["samples"] = cov["samples"][:6]
        if self.foreign:
            cov["mismatches_attributed_to_other_properties"] = self.foreign
        if self.asis:
            cov["asis_mismatches"] = self.asis[:20]
        if self.known_hits:
            cov["known_findings_hit"] = self.known_hits
        ev = {"property_id": self.pid, "tier": self.tier, "seed": self.seed, "level": self.level,
              "coverage": cov, "assumptions": self.assumptions, "wall_s": round(time.time() - self.t0, 2),
              "violations": len(self.violations)}
        with open(os.path.join(EVID, "%s.json" % self.pid), "w") as f:
            json.dump(ev, f, indent=1, default=str)
        for ln in lines:
            print(ln)
        sys.stdout.flush()
        return 1 if self.violations else 0
