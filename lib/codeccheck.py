"""Checks for the codec properties (stun-types).  Pattern: the adapter records what the implementation
answers; TLC evaluates the specification (spec/Stun*.tla) on the same inputs and either judges the record
itself (MISMATCH lines) or emits the expected observations (EXPECT lines) that are compared field by field."""
import json
import os
import random
import subprocess
import re
import time

from common import *  # noqa

JOPTS = "-Xss1g -Xmx8g"


def tlc_judge(module, cfg, env, what, timeout=3000, workers=1):
    res = run_tlc(module, cfg, workers=workers, timeout=timeout, env_extra=env, java_opts=JOPTS)
    out = res["out"]
    if "Model checking completed" not in out or re.search(r"^Error:", out, flags=re.M):
        raise ToolError("TLC judge '%s' did not run cleanly:\n%s" % (what, "\n".join(l[:300] for l in out.splitlines()[-30:] if not l.startswith('"EXPECT'))))
    return res


def read_ndjson(path):
    with open(path) as f:
        return [json.loads(ln) for ln in f if ln.strip()]


# --------------------------------------------------------------------------- C19
def c19(rep, tier, seed, wd):
    tab = os.path.join(wd, "table.ndjson")
    run_harness(["table", tab, str(seed)])
    recs = read_ndjson(tab)
    res = tlc_judge("MCHeader.tla", "MCHeader.cfg", {"TABLE": tab}, "MCHeader")
    out = res["out"]
    if '"TYPE-ALGEBRA-OK"' not in out:
        raise ToolError("MCHeader: in-spec theorems were not evaluated")
    m = re.search(r'"JUDGED (\d+)"', out)
    if not m or int(m.group(1)) != len(recs):
        raise ToolError("MCHeader judged %s of %d records" % (m.group(1) if m else None, len(recs)))
    for mm in re.finditer(r'"MISMATCH (\d+)"', out):
        r = recs[int(mm.group(1)) - 1]
        rep.violation("type/transaction-id table: implementation says %s" % json.dumps(r)[:300], {"kind": "table_record", "record": r})
    kinds = {}
    for r in recs:
        kinds[r["k"]] = kinds.get(r["k"], 0) + 1
    rep.add_cov(evaluations=len(recs), distinct_nontrivial=kinds.get("dec", 0) + kinds.get("enc", 0) + kinds.get("tid", 0),
                exhaustive=True, records_by_kind=kinds,
                rule="every 16-bit type field value decoded (65536), every (class, method) pair encoded (4x4096), transaction ids from boundary patterns (single bits, all-ones, cookie-equal top word) and random 128-bit values through From<u128>, builder, parser and header decoder; 10000 generated ids. TLC evaluates TypeField/ClassOf/MethodOf/TidFromWide (StunHeader.tla) on each record; the algebra itself (round trip, onto, bit diagram) is checked exhaustively as ASSUMEs",
                samples=[recs[1], recs[65536 + 5], recs[65536 + 16384 + 3]])
    rep.assumptions += ["transaction ids are sampled (boundary patterns + random), the type field is exhaustive"]
    os.remove(tab)


CHECKS = {"C19": ("model_checking", c19)}


def replay(pid, rp):
    """re-execute one recorded case on the current tree and print what the implementation answers next to what the
    specification expects"""
    wd = workdir("replay")
    kind = rp.get("kind")
    if kind == "codec_case":
        for case, obs, exp, hang in run_pipeline([rp["case"]], wd, "replay", trace=True):
            must, asis = compare(case, obs, exp, hang)
            print("bytes      :", case["bytes"][:200], "..." if len(case["bytes"]) > 200 else "")
            print("implementation:", json.dumps(obs)[:3000])
            print("specification :", json.dumps(exp)[:3000])
            for pids, what in must:
                print("MUST mismatch", pids, what[:500])
            for what in asis:
                print("as-is difference", what[:300])
            if not must:
                print("no MUST mismatch on the current tree")
    elif kind == "attr_case":
        for case, obs, exp in run_attr_pipeline([rp["case"]], wd, "replay"):
            print("implementation:", json.dumps(obs)[:3000])
            print("specification :", json.dumps(exp)[:3000])
            for pids, what in compare_attr(case, obs, exp)[0]:
                print("MUST mismatch", pids, what[:500])
    elif kind == "attr_oversize":
        cp, op = os.path.join(wd, "over.cases"), os.path.join(wd, "over.obs")
        with open(cp, "w") as f:
            f.write(json.dumps(rp["case"]) + "\n")
        run_harness(["attrs", cp, op])
        print("RawAttribute::new(type %d, %d bytes) through the 19 typed decoders:" % (rp["case"]["type"], rp["case"]["len"]))
        print("implementation:", json.dumps(read_ndjson(op)[0])[:3000])
    elif kind == "builder_ops":
        print("builder from %s, then:" % rp["record"]["start"])
        for o in rp["record"]["ops"]:
            print("  %s(%s) -> %s %s%s" % (o["op"], o["type"], "ok" if o["ok"] else "refused", o["err"], " [serialisation changed]" if o["changed"] else ""))
        print("re-run: ./check %s  (sequence %d of `stunh genops` with seed %s)" % (pid, rp["record"]["id"], rp.get("seed")))
    elif kind == "builder_path":
        print("operation sequence on a fresh request builder (method 1):", " ".join(rp["path"]))
        print("re-run: ./check %s  (the builder walk is exhaustive and deterministic; this path is part of it)" % pid)
    else:
        print(json.dumps(rp, indent=1)[:4000])


def run(pid, tier, seed):
    if pid not in CHECKS:
        raise ToolError("no check for " + pid)
    level, fn = CHECKS[pid]
    rep = Report(pid, tier, seed, level)
    wd = workdir("codec_%s" % pid)
    build_harness()
    fn(rep, tier, seed, wd)
    shutil.rmtree(wd, ignore_errors=True)
    return rep.finish()


# --------------------------------------------------------------------------- generic message pipeline
import hashlib
import hmac as _hmac


def oracle_key(kp):
    """KeyPlan from the spec -> key bytes (MD5 only where the spec says so)"""
    data = bytes(kp["input"])
    return hashlib.md5(data).digest() if kp["md5"] else data


def oracle_mac_ok(plan, key):
    """HMAC over exactly the bytes the spec's IntegrityPlan names; truncated comparison from the left"""
    dig = hashlib.sha1 if plan["alg"] == "sha1" else hashlib.sha256
    mac = _hmac.new(key, bytes(plan["input"]), dig).digest()
    claimed = bytes(plan["mac"])
    return len(claimed) <= len(mac) and _hmac.compare_digest(mac[:len(claimed)], claimed)


def run_pipeline(cases, wd, tag, trace=True, chunk=4000):
    """cases -> [(case, obs, exp)] : adapter observations and the specification's expectations (TLC)"""
    import concurrent.futures as cf
    res = []
    chunks = [cases[i:i + chunk] for i in range(0, len(cases), chunk)]

    def one(ci, ch):
        cp = os.path.join(wd, "%s_%d.cases" % (tag, ci))
        op = os.path.join(wd, "%s_%d.obs" % (tag, ci))
        with open(cp, "w") as f:
            for c in ch:
                f.write(json.dumps(c) + "\n")
        # the adapter stops at a case that does not terminate (watchdog, exit 3): record it and go on after it
        obs_by_index = {}
        hangs = set()
        start = 0
        while start < len(ch):
            sub = os.path.join(wd, "%s_%d_%d.sub" % (tag, ci, start))
            with open(sub, "w") as f:
                for c in ch[start:]:
                    f.write(json.dumps(c) + "\n")
            p = subprocess.run([STUNH, "codec", sub, op] + (["trace"] if trace else []), stdout=subprocess.PIPE, stderr=subprocess.PIPE, text=True)
            got = []
            with open(op) as f:
                for ln in f:
                    try:
                        got.append(json.loads(ln))
                    except ValueError:
                        break           # a partially written last line
            for o in got:
                obs_by_index[start + o["i"]] = o
            os.remove(sub)
            if p.returncode == 0:
                break
            if p.returncode == 3 and os.path.exists(op + ".hang"):
                k = read_ndjson(op + ".hang")[0]["i"]      # 0-based index within the sub-file
                os.remove(op + ".hang")
                hangs.add(start + k + 1)
                if len(hangs) >= 3:
                    break                                  # enough evidence; do not spend 10 s on every further one
                start = start + k + 1
                continue
            raise ToolError("adapter codec failed (rc=%s): %s" % (p.returncode, p.stderr[-1500:]))
        obs = None
        r = tlc_judge("StunMessageJudge.tla", "StunMessageJudge.cfg", {"CASES": cp}, "message judge " + tag)
        exps = {}
        for ln in r["out"].splitlines():
            if ln.startswith('"EXPECT '):
                e = json.loads(json.loads(ln)[7:])
                exps[e["i"]] = e
        m = re.search(r'"JUDGED (\d+)"', r["out"])
        if not m or int(m.group(1)) != len(ch) or len(exps) != len(ch):
            raise ToolError("judge saw %s of %d cases" % (m.group(1) if m else None, len(ch)))
        for f in (cp, op):
            if os.path.exists(f):
                os.remove(f)
        out = []
        for k, c in enumerate(ch):
            i = k + 1
            if i in hangs:
                out.append((c, None, exps[i], {"hang": True}))
            elif i in obs_by_index:
                o = obs_by_index[i]
                o["i"] = i
                out.append((c, o, exps[i], None))
            # cases after the third hang were not run: not a verdict
        return out

    with cf.ThreadPoolExecutor(max_workers=6) as ex:
        futs = [ex.submit(one, ci, ch) for ci, ch in enumerate(chunks)]
        for f in futs:
            res += f.result()
    return res


def compare_cuts(case, obs, exp, asis=None):
    must = []
    asis = asis if asis is not None else []
    # prefixes (C17)
    if exp.get("cuts") and "cuts" in obs:
        for n, (ec, oc) in enumerate(zip(exp["cuts"], obs["cuts"])):
            epp = {k: v for k, v in ec["parse"].items() if k != "exact"}
            if oc["parse"] != epp:
                sev = ec["parse"].get("exact") or oc["parse"].get("ok") or oc["parse"].get("err") != "Truncated" \
                    or not (n < oc["parse"].get("expected", 0) <= len(case["bytes"])) or oc["parse"].get("actual") != n
                if sev:
                    must.append((["C17"], "prefix of %d/%d bytes: impl %s spec %s" % (n, len(case["bytes"]), json.dumps(oc["parse"]), json.dumps(epp))))
                else:
                    asis.append("prefix %d byte counts: impl %s spec %s" % (n, json.dumps(oc["parse"]), json.dumps(epp)))
            if bool(oc["hdr"].get("ok")) != ec["hdr"]:
                must.append((["C17"], "header decoder on a %d-byte prefix: impl %s spec ok=%s" % (n, json.dumps(oc["hdr"]), ec["hdr"])))
    for ec, oc in zip(exp.get("cutlist") or [], obs.get("cutlist") or []):
        n = ec["n"]
        epp = {k: v for k, v in ec["parse"].items() if k != "exact"}
        if oc["parse"] != epp:
            must.append((["C17"], "prefix of %d/%d bytes: impl %s spec %s" % (n, len(case["bytes"]), json.dumps(oc["parse"]), json.dumps(epp))))
        if bool(oc["hdr"].get("ok")) != ec["hdr"]:
            must.append((["C17"], "header decoder on a %d-byte prefix: impl %s spec ok=%s" % (n, json.dumps(oc["hdr"]), ec["hdr"])))
    return must


def first_exposed(exp_exposed, ty):
    for e in exp_exposed:
        if e["type"] == ty:
            return e
    return None


def compare(case, obs, exp, hang=None):
    """field-by-field comparison of what the implementation answered with what the specification expects.
    Returns (must, asis): must = [(property ids, text)], asis = [text]"""
    must, asis = [], []
    if hang is not None or obs is None:
        return [(["C01"], "the adapter did not return from this case (hang or crash)")], asis
    if not exp.get("consistent", True):
        raise ToolError("specification inconsistent on a case (Parse vs WellFormed): %s" % json.dumps(case)[:300])
    if obs.get("any_panic") or obs.get("traced_panic"):
        must.append((["C01"], "panic: " + json.dumps(find_panic(obs))[:300]))
    if obs.get("traced_same") is False and not obs.get("traced_panic"):
        must.append((["C01"], "answers differ with a tracing subscriber installed"))
    ep, op = exp["parse"], obs["parse"]
    if "panic" in op:
        return must, asis
    if "alt" in op:
        # Message::try_from(&[u8]) answered differently from Message::from_bytes: at least one of them is wrong
        alt = op["alt"]
        op = {k: v for k, v in op.items() if k != "alt"}
        obs = dict(obs, parse=op)
        pids = ["C02"] + (["C09"] if has_fp(case) or ep.get("err") == "FingerprintMismatch" else []) + (["C17"] if ep.get("err") == "Truncated" else []) + \
               (["C01"] if "panic" in alt else [])
        must.append((pids, "Message::try_from answers %s, Message::from_bytes %s, specification %s" % (json.dumps(alt), json.dumps(op), json.dumps(ep))))
    fp_related = (not ep["ok"] and ep.get("err") == "FingerprintMismatch")
    if ep["ok"] != op["ok"]:
        pids = ["C02"] + (["C09"] if fp_related or has_fp(case) else [])
        must.append((pids, "parser %s a buffer the specification %s" % (
            "accepted" if op["ok"] else "rejected (" + json.dumps(op) + ")", "rejects: " + json.dumps(ep) if not ep["ok"] else "accepts")))
        # a wrongly accepted buffer is still held to the exposure rule (C10)
        hyp = exp.get("hyp") or {}
        if op["ok"] and "exposed" in hyp and isinstance(obs.get("acc", {}).get("exposed"), list):
            got = [(e["type"], e["value"]) for e in obs["acc"]["exposed"]]
            want = [(e["type"], e["value"]) for e in hyp["exposed"]]
            if got != want:
                must.append((["C10"], "accepted buffer exposes %s; the exposure rule allows %s" % ([t for t, _ in got], [t for t, _ in want])))
        must += compare_cuts(case, obs, exp)
        return must, asis
    if not ep["ok"]:
        if "causes" in exp:
            pair = [op.get("err"), op.get("type", -1)]
            names = [c[0] for c in exp["causes"]]
            if op.get("err") not in names:
                must.append((["C02"], "rejection names %s; the buffer justifies only %s" % (op.get("err"), exp["causes"])))
            elif op.get("err") in ("AttributeAfterIntegrity", "AttributeAfterFingerprint") and pair not in exp["causes"]:
                must.append((["C02"], "rejection carries type %s; the offending attributes are %s" % (op.get("type"), exp["causes"])))
        if ep.get("exact") and (op.get("err") != "Truncated" or op.get("expected") != ep["expected"] or op.get("actual") != ep["actual"]):
            must.append((["C02", "C17"], "truncation reported as %s, specification %s" % (json.dumps(op), json.dumps(ep))))
        # whichever truncation is reported, its byte counts describe the buffer: what is available is what was handed in, and
        # more than that is needed (how much more is as-is for a cut inside the body)
        # (a FINGERPRINT of a wrong length may be reported as a truncated VALUE, with the value's counts: as-is, see App. B)
        wrong_len_fp = "InvalidAttributeData" in [c[0] for c in exp.get("causes", [["InvalidAttributeData"]])]
        if op.get("err") == "Truncated" and not wrong_len_fp and not (op.get("actual") == len(case["bytes"]) and isinstance(op.get("expected"), int) and op["expected"] > op["actual"]):
            must.append((["C02"], "truncation reported with byte counts that do not describe the buffer: %s for %d bytes" % (json.dumps(op), len(case["bytes"]))))
        e2 = {k: v for k, v in ep.items() if k != "exact"}
        if e2 != op:
            asis.append("error detail: impl %s spec %s" % (json.dumps(op), json.dumps(e2)))
    if "hdr" in exp:
        eh, oh = exp["hdr"], obs.get("hdr", {})
        # C17's last sentence on whatever buffer is at hand: from 20 bytes on, the header decoder accepts exactly what the full
        # parser does not call non-STUN
        if len(case["bytes"]) >= 20 and "panic" not in oh and (bool(oh.get("ok")) == (op.get("err") == "NotStun")):
            must.append((["C17"], "header decoder %s, full parser answers %s" % ("accepts" if oh.get("ok") else "refuses (" + json.dumps(oh) + ")", json.dumps(op)[:120])))
        if eh != oh:
            must.append((["C17"] if eh.get("ok") or eh.get("err") != "NotStun" or oh.get("ok") else ["C17", "C19"],
                         "header decoder: impl %s spec %s" % (json.dumps(oh), json.dumps(eh))))
        et, ot = exp["typ"], obs.get("typ", {})
        if et != ot:
            must.append((["C19"] if len(case["bytes"]) >= 2 else ["C01"], "message type decoder: impl %s spec %s" % (json.dumps(ot), json.dumps(et))))
    if not ep["ok"] or "acc" not in exp:
        return must, asis
    ea, oa = exp["acc"], obs["acc"]
    for f, pid in (("class", ["C02", "C19"]), ("method", ["C02", "C19"]), ("tid", ["C02", "C19"])):
        if ea[f] != oa.get(f):
            must.append((pid, "%s: impl %s spec %s" % (f, oa.get(f), ea[f])))
    if oa.get("cls_consistent") is not True:
        must.append((["C02"], "class/method predicates disagree with class()/method()"))
    # exposure
    eexp = [(e["type"], e["value"]) for e in ea["exposed"]]
    oexp = oa.get("exposed")
    if isinstance(oexp, dict):
        oexp = None
    oexp_l = [(e["type"], e["value"]) for e in oexp] if oexp is not None else None
    if oexp_l != eexp:
        # who owns it: differences confined to what follows the first integrity attribute are C10
        def upto_integ(l):
            out = []
            for t, v in l:
                out.append((t, v))
                if t in (8, 28):
                    break
            return out
        pids = ["C10"] if oexp_l is not None and upto_integ(oexp_l) == upto_integ(eexp) else ["C02", "C10"]
        must.append((pids, "exposed attributes: impl %s spec %s" % (
            [t for t, _ in oexp_l] if oexp_l is not None else oa.get("exposed"), [t for t, _ in eexp])))
    if oa.get("adaptors"):
        must.append((["C02", "C10"], "driving the attribute iterator through %s does not give the sequence repeated next() gives" % json.dumps(oa["adaptors"])[:200]))
    for lk in oa.get("lookup", []) if isinstance(oa.get("lookup"), list) else []:
        fe = first_exposed(ea["exposed"], lk["type"])
        want_found = fe is not None
        if lk["found"] != want_found or lk["has"] != want_found or (want_found and lk["value"] != fe["value"]):
            pids = ["C02", "C10"] + (["C13"] if lk["type"] == 0x20 else [])
            must.append((pids, "lookup of type %d: impl found=%s has=%s value=%s, specification: %s" % (
                lk["type"], lk["found"], lk["has"], str(lk["value"])[:80], ("first exposed value %s" % str(fe["value"])[:80]) if fe else "absent")))
    for t in oa.get("typed", []) if isinstance(oa.get("typed"), list) else []:
        if t.get("wrong_impl_bad"):
            must.append((["C08"], "typed decoders of other types did not refuse attribute %d as the wrong implementation: %s" % (t["type"], json.dumps(t["wrong_impl_bad"])[:200])))
    # attribute::<T>() is "first exposed attribute of that type, decoded": absent -> MissingAttribute, else the same
    # success/failure as decoding that first attribute (the list `typed` holds one entry per exposed attribute)
    tf = oa.get("typed_first")
    tl = oa.get("typed") if isinstance(oa.get("typed"), list) else None
    if isinstance(tf, dict) and tl is not None and "panic" not in tf:
        for tys, got in tf.items():
            ty = int(tys)
            first = next((t for t in tl if t.get("type") == ty), None)
            fe = first_exposed(ea["exposed"], ty)
            if fe is None:
                ok = isinstance(got, dict) and got.get("err") == "MissingAttribute"
            elif first is None:
                ok = True      # the exposure mismatch itself is reported above
            else:
                ok = (got == "ok") == bool(first.get("ok"))
            if not ok:
                must.append((["C02", "C10"], "attribute::<T>() for type %d answered %s; first exposed attribute of that type: %s" % (
                    ty, json.dumps(got)[:120], "absent" if fe is None else ("decodes" if first and first.get("ok") else "does not decode"))))
    # integrity (C04): expectation = f(plan, oracle)
    if "integrity" in oa and "creds" in case:
        plan = ea["plan"]
        for k, got in enumerate(oa["integrity"]):
            if "panic" in got:
                continue
            if not plan["present"]:
                if got.get("ok") or got.get("err") != "MissingAttribute":
                    must.append((["C04"], "no integrity attribute exposed, validate_integrity answered %s" % json.dumps(got)))
                continue
            if not plan["lenOk"]:
                if got.get("ok"):
                    must.append((["C04"], "integrity attribute of an illegal length validated: %s" % json.dumps(got)))
                continue
            ok = oracle_mac_ok(plan, oracle_key(exp["keyplans"][k]))
            want = {"ok": True, "alg": plan["alg"]} if ok else {"ok": False, "err": "IntegrityCheckFailed"}
            if got != want:
                must.append((["C04"], "validate_integrity with credentials #%d: impl %s, specification+oracle %s (attribute at offset %d)" % (
                    k, json.dumps(got), json.dumps(want), plan["off"])))
    # responses derived from a request (C16: class error, the request's method and id, ERROR-CODE, list)
    er, orr = ea.get("resp") or {}, oa.get("resp")
    if "success" in er and isinstance(orr, dict) and "panic" not in orr:
        if orr.get("success", {}).get("hdr") != er["success"]:
            asis.append("builder_success header: impl %s spec %s" % (json.dumps(orr.get("success"))[:150], json.dumps(er["success"])))
            must.append((["C16x"], "builder_success: impl %s spec %s" % (json.dumps(orr.get("success"))[:150], json.dumps(er["success"]))))
        for k in ("bad", "unk", "unk0"):
            want, got = er[k], orr.get(k, {})
            if got.get("hdr") != want["hdr"] or got.get("code") != want["code"] or got.get("unknown") != want["unknown"] or got.get("types") != want["types"]:
                must.append((["C16"], "error response helper %s: impl %s spec %s" % (k, json.dumps(got)[:200], json.dumps(want)[:200])))
    # policing (C16)
    if "police" in oa and "police" in case:
        for k, got in enumerate(oa["police"]):
            want = ea["police"][k]
            sup, req = case["police"][k]
            if ea["class"] != "request":
                continue        # C16 speaks about requests
            if "panic" in got:
                # (reported under C01 above; for a request it is also no answer to the policing question)
                must.append((["C16"], "policing with supported=%s required=%s (%d/%d entries): panic instead of %s" % (
                    sup[:8], req[:8], len(sup), len(req), json.dumps(want)[:120])))
                continue
            gv = got.get("verdict")
            if gv != want["verdict"]:
                must.append((["C16"], "policing with supported=%s required=%s: impl %s spec %s" % (sup, req, json.dumps(got)[:200], json.dumps(want))))
                continue
            if want["verdict"] != 0:
                def dedup(l):
                    o = []
                    for x in l or []:
                        if x not in o:
                            o.append(x)
                    return o
                if got.get("reparse") != {"ok": True} or got.get("class") != "error" or got.get("method") != ea["method"] or got.get("tid") != ea["tid"] \
                        or not got.get("builder_has_error_code") or got.get("unknown_typed_ok") is not True:
                    must.append((["C16"], "error response malformed: %s" % json.dumps({k2: v for k2, v in got.items() if k2 != "bytes"})[:300]))
                if want["verdict"] == 420:
                    # one entry per exposed offending attribute, in message order (Police() in StunMessage.tla; a repeated
                    # unsupported type is listed as often as it occurs, which is what "in message order" is read to mean)
                    if got.get("unknown") != want["unknown"]:
                        must.append((["C16"], "UNKNOWN-ATTRIBUTES lists %s, specification %s" % (got.get("unknown"), want["unknown"])))
                elif got.get("unknown") is not None:
                    must.append((["C16"], "a 400 response carries UNKNOWN-ATTRIBUTES %s" % got.get("unknown")))
    must += compare_cuts(case, obs, exp, asis)
    return must, asis


def huge_messages(rng, n=4):
    """messages around the 16-bit length boundary: one raw attribute filling the body (assembled from the layout
    the specification uses: 20-byte header, 4-byte TLV header; judged by the specification like any other buffer)"""
    out = []
    for total in [65552, 65548, 65536, 65532, 65528][:n]:
        vlen = total - 24
        ty = rng.choice([0x7f01, 0xff01, 0x8022])
        body = [ty >> 8, ty & 255, vlen >> 8, vlen & 255] + [rng.randrange(256) for _ in range(vlen)]
        hdr = [0, 1, (total - 20) >> 8, (total - 20) & 255, 0x21, 0x12, 0xa4, 0x42] + [rng.randrange(256) for _ in range(12)]
        out.append({"bytes": hdr + body, "src": "huge message of %d bytes" % total,
                    "cutlist": [0, 1, 19, 20, 21, 24, 1000, 65535, total - 4, total - 1]})
    # a small complete message followed by exactly 2^16 (and 2^16 +- 4) further bytes that are themselves a tiling
    # of attributes: sizes that agree with the declared length modulo 2^16
    small = [0, 1, 0, 8, 0x21, 0x12, 0xa4, 0x42] + [rng.randrange(256) for _ in range(12)] + [0x80, 0x22, 0, 4, 115, 116, 117, 110]
    for extra in (65536, 65532, 65540)[:max(1, n - 2)]:
        tail = []
        left = extra
        ty = 0x8001
        while left > 0:
            v = min(left - 4, 16380)
            tail += [ty >> 8, ty & 255, v >> 8, v & 255] + [1] * v
            left -= 4 + v
            ty = 6
        out.append({"bytes": small + tail, "src": "28-byte message followed by %d bytes of further attributes" % extra})
    return out


def has_fp(case):
    b = case["bytes"]
    return any(b[i] == 0x80 and b[i + 1] == 0x28 for i in range(20, len(b) - 1, 1))


def find_panic(v, path=""):
    if isinstance(v, dict):
        if "panic" in v:
            return {path: v["panic"]}
        for k, x in v.items():
            r = find_panic(x, path + "/" + str(k))
            if r:
                return r
    elif isinstance(v, list):
        for i, x in enumerate(v):
            r = find_panic(x, path + "/" + str(i))
            if r:
                return r
    return None


def enum_cases(cfgs, wd):
    """skeleton enumeration by TLC (MCStunMessage): invariants on every message + the messages themselves"""
    cases = []
    st = tr = 0
    for cfg in cfgs:
        op = os.path.join(wd, cfg + ".out")
        res = run_tlc("MCStunMessage.tla", "MCStunMessage_%s.cfg" % cfg, workers=1, timeout=3000, out_path=op, java_opts=JOPTS)
        tlc_ok(res, "MCStunMessage " + cfg)
        with open(op) as f:
            for ln in f:
                if ln.startswith('"CASE '):
                    c = json.loads(json.loads(ln)[5:])
                    c["src"] = cfg
                    cases.append(c)
        os.remove(op)
        st += res["distinct"]
        tr += res["generated"]
    return cases, st, tr


# --------------------------------------------------------------------------- case sources
ALPHA_TYPES = [6, 32802, 32512, 65280, 8, 28, 32808, 36, 0]
# wire type of each letter of MCStunMessage!Alphabet (only used to choose policing sets)
LETTER_TYPES = [6, 6, 32802, 32802, 32512, 65280, 8, 8, 28, 28, 28, 32808, 32808, 32808, 32808, 36, 32802, 65280, 6, 0, 8, 28, 8, 8, 8]


def gen_messages(n, seed, wd, maxattrs=5, tag="gen", nbig=0, nmany=None):
    p = os.path.join(wd, "%s.ndjson" % tag)
    if nmany is None:
        nmany = min(10, max(2, n // 40))      # a few messages with dozens of small attributes in every generated set
    run_harness(["gen", str(n), str(seed), p, str(maxattrs), str(nbig), str(nmany)])
    r = read_ndjson(p)
    os.remove(p)
    return r


def mutate(b, rng):
    """generic byte-level mutations (no knowledge of the format beyond 'bytes 2..3 are a length')"""
    b = list(b)
    k = rng.randrange(9)
    if k == 0 and b:
        i = rng.randrange(len(b) * 8)
        b[i // 8] ^= 1 << (i % 8)
    elif k == 1 and b:
        b[rng.randrange(len(b))] = rng.choice([0, 1, 4, 8, 28, 40, 128, 255, rng.randrange(256)])
    elif k == 2:
        b.insert(rng.randrange(len(b) + 1), rng.choice([0, 255, rng.randrange(256)]))
    elif k == 3 and b:
        del b[rng.randrange(len(b))]
    elif k == 4 and b:
        b = b[:rng.randrange(len(b))]
    elif k == 5:
        b += [rng.choice([0, 255, rng.randrange(256)]) for _ in range(rng.choice([1, 2, 3, 4, 8, 24]))]
    elif k == 6 and len(b) >= 4:
        v = (b[2] * 256 + b[3] + rng.choice([-8, -4, -1, 1, 4, 8, 24])) % 65536
        b[2], b[3] = v >> 8, v & 255
    elif k == 7 and len(b) > 24:
        # swap two 4-byte words of the body
        i = 20 + 4 * rng.randrange((len(b) - 20) // 4)
        j = 20 + 4 * rng.randrange((len(b) - 20) // 4)
        b[i:i + 4], b[j:j + 4] = b[j:j + 4], b[i:i + 4]
    elif k == 8 and len(b) > 28:
        # duplicate a 4-byte-aligned chunk at the end (keeps alignment, fixes nothing else)
        i = 20 + 4 * rng.randrange((len(b) - 20) // 4)
        b += b[i:i + rng.choice([4, 8, 12, 24, 36])]
        v = len(b) - 20
        if rng.random() < 0.7 and v < 65536:
            b[2], b[3] = v >> 8, v & 255
    return b


def report_must(rep, pid, triples, cases_label):
    """feed comparison results into the report: violations owned by pid, others counted"""
    n_must = 0
    for case, obs, exp, hang in triples:
        must, asis = compare(case, obs, exp, hang)
        for t in asis:
            if len(rep.asis) < 50:
                rep.asis.append(t[:300])
        for pids, what in must:
            if pid in pids:
                n_must += 1
                rep.violation("%s: %s" % (case.get("src", cases_label), what), {"kind": "codec_case", "case": slim(case)})
            else:
                for p in pids:
                    rep.note_foreign(p)
    return n_must


def slim(case):
    c = {k: v for k, v in case.items() if k not in ("gen",)}
    return c


def distinct(cases):
    return len({bytes(c["bytes"]) for c in cases})


# --------------------------------------------------------------------------- C02 / C10 / C17 / C16
def c02(rep, tier, seed, wd):
    rng = random.Random(seed)
    cfgs = ["bodies2", "tails4", "tailsfp", "tailsodd", "headers"] if tier == "quick" else ["bodies", "tails5", "tailsfp", "tailsodd", "headers"]
    cases, st, tr = enum_cases(cfgs, wd)
    for c in cases:
        c["lookup"] = ALPHA_TYPES
    n_enum = len(cases)
    gm = gen_messages(250 if tier == "quick" else 4000, seed, wd, maxattrs=4)
    muts = []
    for g in gm:
        for _ in range(4 if tier == "quick" else 8):
            m = mutate(g["bytes"], rng)
            if rng.random() < 0.3:
                m = mutate(m, rng)
            muts.append({"bytes": m, "src": "mutant of generated message %d" % g["id"]})
    gcs = [{"bytes": g["bytes"], "src": "generated message %d" % g["id"]} for g in gm]
    # every attribute type code must come out of the parser as the code that is in the buffer (no aliasing): a request
    # with one attribute of each type (quick: all codes below 0x100, around 0x8000, and every 13th; thorough: all 65536)
    tset = sorted(set(list(range(0, 0x100)) + list(range(0x7f00, 0x8100)) + list(range(0xff00, 0x10000)) +
                      (list(range(0, 0x10000, 13)) if tier == "quick" else list(range(0x10000)))))
    for t in tset:
        vl = 4 if t == 32808 else (20 if t == 8 else (32 if t == 28 else t % 3))
        body = [t >> 8, t & 255, 0, vl] + [t & 255] * vl + [0] * ((4 - vl % 4) % 4) + [0x80, 0x22, 0, 1, 65, 0, 0, 0]
        hdrb = [0, 1, 0, len(body), 0x21, 0x12, 0xa4, 0x42] + [t & 255, t >> 8] * 6
        gcs.append({"bytes": hdrb + body, "lookup": [t, 0x20], "src": "request with one attribute of type %#06x" % t})
    # a parser is a function of the buffer alone: each original is parsed right before its own mutants
    per = len(muts) // max(1, len(gm))
    inter = []
    for k, g in enumerate(gcs):
        inter.append(g)
        if k < len(gm):
            inter += muts[k * per:(k + 1) * per]
    n_mut = len(muts)
    gcs, muts = inter, muts[len(gm) * per:]
    huge = huge_messages(rng, 3 if tier == "quick" else 5)
    for hm in list(huge):
        for _ in range(2):
            huge.append({"bytes": mutate(hm["bytes"], rng), "src": "mutant of " + hm["src"]})
    allc = cases + gcs + muts + huge
    triples = run_pipeline(allc, wd, "c02", trace=False)
    report_must(rep, "C02", triples, "case")
    acc = sum(1 for (_c, o, e, _h) in triples if e["parse"]["ok"])
    rep.add_cov(states=st, transitions=max(tr, 1), traces_validated_against_impl=len(allc),
                enumerated_skeletons=n_enum, generated=len(gm), mutants=n_mut, accepted_by_spec=acc,
                distinct_buffers=distinct(allc),
                samples=[{"bytes": allc[5]["bytes"], "as": allc[5].get("as"), "defect": allc[5].get("defect")},
                         {"src": gcs[1]["src"], "bytes_len": len(gcs[1]["bytes"])}],
                rule="TLC (MCStunMessage) enumerates every message skeleton (16 attribute letters incl. integrity/fingerprint of right and wrong lengths, 13 header variants, last-attribute defects) up to the configured depth and checks Parse.ok <=> WellFormed, ErrorIsACause, ExposureInv on each; each skeleton, each builder-generated message and byte-level mutants of those are parsed by the implementation and judged by the TLA+ reference decoder (StunMessageJudge): verdict, error variant within the justified causes, class/method/id, exposed (type,value) sequence, first-match lookups")
    rep.assumptions += ["TLC + Json/IOUtils trusted; mutants are sampled", "error byte counts of mid-body truncations are as-is (not alarmed)"]


def c10(rep, tier, seed, wd):
    cfgs = ["tails4", "tailsfp", "tailsodd", "bodies2"] if tier == "quick" else ["tails5", "tailsfp", "tailsodd", "bodies"]
    cases, st, tr = enum_cases(cfgs, wd)
    for c in cases:
        c["lookup"] = ALPHA_TYPES
    gm = [g for g in gen_messages(300 if tier == "quick" else 3000, seed + 1, wd, maxattrs=4) if g["gen"]["seal"] != 0]
    gcs = [{"bytes": g["bytes"], "creds": g["creds"][:1], "src": "generated sealed message %d (seal=%d)" % (g["id"], g["gen"]["seal"])} for g in gm]
    allc = cases + gcs
    triples = run_pipeline(allc, wd, "c10", trace=False)
    report_must(rep, "C10", triples, "case")
    with_integ = sum(1 for (_c, o, e, _h) in triples if e["parse"]["ok"] and e["acc"]["plan"]["present"])
    tails = {}
    for (_c, o, e, _h) in triples:
        if e["parse"]["ok"] and e["acc"]["plan"]["present"]:
            ts = tuple(x["type"] for x in e["acc"]["exposed"] if x["type"] in (8, 28, 32808))
            tails[ts] = tails.get(ts, 0) + 1
    rep.add_cov(states=st, transitions=max(tr, 1), traces_validated_against_impl=len(allc), accepted_with_integrity=with_integ,
                exposed_tail_shapes={str(k): v for k, v in tails.items()},
                samples=[{"bytes": allc[7]["bytes"], "as": allc[7].get("as")}],
                rule="all orders and subsets of {MI, MI256 (3 lengths), FINGERPRINT (4 variants)} after 0-2 ordinary attributes enumerated by TLC with ExposureInv (exposed = prefix up to first integrity, MI256 directly after MI, FINGERPRINT; exposed non-ending attributes end before the offset validate_integrity authenticates); iteration, raw_attribute, has_attribute and typed lookups of the implementation compared with Exposed/Lookup on every accepted case")


def c17(rep, tier, seed, wd):
    cfgs = ["bodies2", "tails4"] if tier == "quick" else ["bodies", "tails5"]
    cases, st, tr = enum_cases(cfgs, wd)
    gm = [g for g in gen_messages(400 if tier == "quick" else 3000, seed + 2, wd, maxattrs=3) if len(g["bytes"]) <= (260 if tier == "quick" else 900)]
    gcs = [{"bytes": g["bytes"], "src": "generated message %d" % g["id"]} for g in gm]
    allc = cases + gcs
    for c in allc:
        c["cuts"] = True
    allc += huge_messages(random.Random(seed), 3 if tier == "quick" else 5)
    # the verdict on a prefix does not depend on what kind of message it is: EVERY one of the 16384 type fields (4 classes x 4096
    # methods), with one attribute (quick: prefixes of 2, 19, 20, 21 and 27 of its 28 bytes; thorough: every prefix)
    tid = [0x14, 0xfe, 0xfd, 0, 1, 2, 3, 4, 5, 6, 7, 8]
    for f in range(16384):
        m = {"bytes": [f >> 8, f & 255, 0, 8, 0x21, 0x12, 0xa4, 0x42] + tid + [0x80, 0x22, 0, 2, 0x61, 0x62, 0, 0], "src": "message of type 0x%04x" % f}
        if tier == "quick":
            m["cutlist"] = [2, 19, 20, 21, 27]
        else:
            m["cuts"] = True
        allc.append(m)
    # headers whose declared length is anything at all (not only what a builder writes: odd, not a multiple of 4, longer or
    # shorter than what follows), alone and followed by that many / fewer / more bytes
    for d in list(range(0, 30)) + [255, 256, 257, 0xfffc, 0xfffd, 0xffff]:
        hdr = [0, 1, d >> 8, d & 255, 0x21, 0x12, 0xa4, 0x42] + tid
        body = [0xc0, 0x01, 0, max(0, min(d, 600) - 4) & 255] + [7] * 600
        for n in sorted({0, min(d, 600), max(0, min(d, 600) - 1), min(d, 600) + 1}):
            allc.append({"bytes": hdr + body[:n], "src": "header declaring %d bytes followed by %d" % (d, n)})
    triples = run_pipeline(allc, wd, "c17", trace=False, chunk=1500)
    report_must(rep, "C17", triples, "case")
    ncuts = sum(len(e.get("cuts", [])) + len(e.get("cutlist", [])) for (_c, o, e, _h) in triples)
    nmsg = sum(1 for (_c, o, e, _h) in triples if e.get("cuts"))
    rep.add_cov(states=st, transitions=max(tr, 1), traces_validated_against_impl=nmsg, prefixes_checked=ncuts,
                samples=[{"bytes": gcs[0]["bytes"] if gcs else allc[0]["bytes"], "cuts": "0..len-1"}], exhaustive_in_cut_points=True,
                rule="for every well-formed message (TLC-enumerated skeletons and builder-generated ones) EVERY strict prefix is parsed by Message::from_bytes and MessageHeader::from_bytes and compared with ParsePrefix (Truncated{20,n} below 20 bytes, Truncated{len(m),n} from 20 on; header decoder accepts exactly from 20 bytes with the same type/id/length)")


def police_sets(types_present, rng, k):
    alpha = sorted(set(types_present) | {6, 36, 32802, 0x7fff, 0x8000, 0xffff, 0, 8, 28, 32808})
    many = sorted(set(alpha) | set(range(0x0100, 0x0128)))
    out = [[[], []], [alpha, []], [alpha, alpha[:2]], [many, many]]
    # the ending attributes as requirements (present or not, exposed or hidden), one at a time and together
    out += [[alpha, [32808]], [alpha, [8]], [alpha, [28]], [[], [8, 28, 32808]]]
    for _ in range(k):
        sup = [t for t in alpha if rng.random() < 0.6]
        req = [t for t in alpha if rng.random() < 0.25]
        out.append([sup, req])
    # the two arguments are lists: the same set with repeated entries, in another order, and lists whose LENGTH is special
    # (63, 64, 65, 128, 256 entries: word sizes of a bitmap), with all of the present types among them or one missing
    pres = sorted(set(types_present))
    if pres:
        t = rng.choice(pres)
        out += [[alpha, [t, t]], [alpha + alpha[::-1], pres + pres], [alpha[::-1], pres[::-1]], [[x for x in alpha if x != t] * 2, [t, t, t]]]
    absent = [x for x in (0x0101, 36, 6, 0x7ffe) if x not in pres][0]
    out += [[alpha, [absent, absent]], [alpha, pres + [absent, absent]]]
    for n in (63, 64, 65, 128):
        fill = [x for x in range(0x0200, 0x0200 + 2 * n) if x not in pres]
        full = (pres + fill)[:n]
        out.append([sorted(set(alpha) | set(full)), full])                      # n required types, those present first
        out.append([alpha, (fill[:n - len(pres)] + pres)[:n][::-1]])           # n required types, those present last
        if pres and n in (64, 65):
            out.append([alpha, pres[:1] * n])                                  # one type named n times
    return out


def c16(rep, tier, seed, wd):
    rng = random.Random(seed)
    cfgs = ["bodies2", "tails4"] if tier == "quick" else ["bodies", "tails5"]
    cases, st, tr = enum_cases(cfgs, wd)
    cases = [c for c in cases if c["h"] in (1, 14) and c["defect"] == "none"]       # requests
    gm = [g for g in gen_messages(600 if tier == "quick" else 5000, seed + 3, wd, maxattrs=5) if g["gen"]["class"] == "request"]
    gcs = [{"bytes": g["bytes"], "src": "generated request %d" % g["id"], "types": [a["d"]["t"] for a in g["gen"]["attrs"]]} for g in gm]
    for c in cases:
        c["types"] = [LETTER_TYPES[x - 1] for x in c["as"]]
    allc = cases + gcs
    for c in allc:
        c["police"] = police_sets(c["types"], rng, 6 if tier == "quick" else 20)
    triples = run_pipeline(allc, wd, "c16", trace=False)
    report_must(rep, "C16", triples, "case")
    verd = {}
    npol = 0
    for (_c, o, e, _h) in triples:
        if e["parse"]["ok"]:
            for p in e["acc"]["police"]:
                verd[p["verdict"]] = verd.get(p["verdict"], 0) + 1
                npol += 1
    # comprehension-required on all 65536 types: part of the attribute table (C08 machinery)
    bad = comprehension_table(wd)
    for t in bad:
        rep.violation("comprehension_required(%d) is %s" % (t[0], t[1]), {"kind": "table_record", "record": {"type": t[0], "impl": t[1]}})
    if not all(verd.get(v, 0) > 0 for v in (0, 400, 420)):
        raise ToolError("vacuity: policing verdicts seen %s" % verd)
    rep.add_cov(states=st, transitions=max(tr, 1), traces_validated_against_impl=len(allc), policing_calls=npol, verdicts=verd,
                comprehension_required_types_checked=65536,
                samples=[{"bytes": allc[3]["bytes"], "police": allc[3]["police"][:2]}],
                rule="requests (TLC-enumerated skeletons incl. duplicates and hidden attributes after integrity; builder-generated with up to 5 attributes) x supported/required subsets of the types present and absent (empty, full, random); verdict, UNKNOWN-ATTRIBUTES list in message order, class/method/id/ERROR-CODE of the response and its re-parse compared with Police(); comprehension_required compared with 'type < 0x8000' for all 65536 types")


def comprehension_table(wd):
    p = os.path.join(wd, "compr.ndjson")
    run_harness(["compr", p])
    recs = read_ndjson(p)
    os.remove(p)
    # the rule 'type value < 0x8000' is ComprehensionRequired(t) in StunMessage.tla; evaluated by TLC
    res = tlc_judge("MCCompr.tla", "MCCompr.cfg", {"TABLE": p + ".in"} if False else {}, "MCCompr")
    m = re.search(r'"COMPR-REQUIRED-BELOW (\d+)"', res["out"])
    if not m:
        raise ToolError("MCCompr did not report the threshold")
    thr = int(m.group(1))
    return [(r["t"], r["cr"]) for r in recs if r["cr"] != (r["t"] < thr)]


CHECKS.update({"C02": ("model_checking", c02), "C10": ("model_checking", c10), "C17": ("model_checking", c17), "C16": ("model_checking", c16)})


# --------------------------------------------------------------------------- C09 / C04
def bit_flips(b):
    for i in range(len(b) * 8):
        m = list(b)
        m[i // 8] ^= 1 << (7 - i % 8)
        yield m, "bit %d" % i


def bursts(b, rng, per_len):
    nbits = len(b) * 8
    for L in range(2, 33):
        for _ in range(per_len):
            start = rng.randrange(nbits - L + 1)
            # a burst of length L: first and last bit flipped, anything in between
            pat = 1 | (1 << (L - 1)) | (rng.getrandbits(L) if L > 2 else 0)
            m = list(b)
            for k in range(L):
                if (pat >> k) & 1:
                    i = start + k
                    m[i // 8] ^= 1 << (7 - i % 8)
            yield m, "burst len %d at bit %d" % (L, start)


def systematic_fp_mutants(g, rng):
    """the places where a checksum check is most easily fooled: the length field (every value of its two bytes, the
    declared length +-1..8), the CRC value itself (every pair of bit flips inside it, several bytes changed at once) and
    other ways to 'compute the same checksum' (without the final XOR constant, complemented, byte-reversed)"""
    b = g["bytes"]
    n = len(b)
    out = []
    def add(m, what):
        if m != b:
            out.append({"bytes": m, "mode": "verdict", "src": "message %d, %s" % (g["id"], what)})
    for pos in (2, 3):
        for v in range(256):
            m = list(b)
            m[pos] = v
            add(m, "length byte %d := %d" % (pos, v))
    L = b[2] * 256 + b[3]
    for dlt in list(range(-8, 0)) + list(range(1, 9)):
        if 0 <= L + dlt < 65536:
            m = list(b)
            m[2], m[3] = (L + dlt) >> 8, (L + dlt) & 255
            add(m, "length field %+d" % dlt)
    for i in range(32):
        for j in range(i + 1, 32):
            m = list(b)
            m[n - 4 + i // 8] ^= 1 << (7 - i % 8)
            m[n - 4 + j // 8] ^= 1 << (7 - j % 8)
            add(m, "CRC value bits %d and %d flipped" % (i, j))
    crc = b[n - 4:]
    xc = [0x53, 0x54, 0x55, 0x4e]
    for what, val in (("XOR 0x5354554e", [crc[i] ^ xc[i] for i in range(4)]), ("complemented", [x ^ 0xff for x in crc]),
                      ("byte-reversed", crc[::-1]), ("XOR 0x5354554e, byte-reversed", [crc[i] ^ xc[i] for i in range(4)][::-1]),
                      ("XOR 0x4e555453", [crc[i] ^ xc[3 - i] for i in range(4)]), ("zero", [0, 0, 0, 0]), ("the constant itself", xc)):
        add(b[:n - 4] + val, "CRC value %s" % what)
    # checksums a lenient or mistaken verifier might also take: computed before the length field was updated (it then
    # does not cover the attribute), over the body without the header, over the attribute header as well, with the length
    # field zeroed, with another initial value - all XORed with the constant as the RFC says
    import zlib
    pre = bytes(b[:n - 8])
    def withlen(x, L2):
        x = bytearray(x)
        x[2], x[3] = (L2 >> 8) & 255, L2 & 255
        return bytes(x)
    for what, data in (("length field not yet covering the attribute", withlen(pre, L - 8)), ("length field zero", withlen(pre, 0)),
                       ("body only", pre[20:]), ("including the attribute header", bytes(b[:n - 4])),
                       ("length field covering header too", withlen(pre, (L + 20) & 0xffff)), ("length field +4", withlen(pre, (L + 4) & 0xffff)),
                       ("length field -4", withlen(pre, (L - 4) & 0xffff))):
        for init in (0, 0xffffffff):
            v = (zlib.crc32(data, init) ^ 0x5354554e) & 0xffffffff
            add(b[:n - 4] + list(v.to_bytes(4, "big")), "CRC value recomputed with %s%s" % (what, "" if init == 0 else " (other initial value)"))
            add(b[:n - 4] + list(v.to_bytes(4, "little")), "CRC value recomputed with %s, little-endian%s" % (what, "" if init == 0 else " (other initial value)"))
    for _ in range(100):
        m = list(b)
        for k in rng.sample(range(4), rng.choice([2, 3, 4])):
            m[n - 4 + k] ^= rng.choice([1, 2, 4, 8, 16, 32, 64, 128, 0x81, 0xff])
        add(m, "several CRC bytes changed")
    return out


def c09(rep, tier, seed, wd):
    rng = random.Random(seed)
    nmsg = 14 if tier == "quick" else 150
    allfp = [g for g in gen_messages(400 if tier == "quick" else 4000, seed + 4, wd, maxattrs=3) if g["gen"]["seal"] & 4]
    # (the builder side of the property is checked on every one of them, whatever its size; corruption on the small ones)
    gm = [g for g in allfp if len(g["bytes"]) <= (140 if tier == "quick" else 400)]
    # builder-appended and externally computed fingerprints, with and without integrity attributes
    gm.sort(key=lambda g: (g["gen"]["by_ext"], g["gen"]["seal"]))
    pick = gm[::max(1, len(gm) // nmsg)][:nmsg]
    # messages with dozens of attributes in front of the FINGERPRINT (any size): sampled corruption only
    crowded = [g for g in gen_messages(400 if tier == "quick" else 4000, seed + 4, wd, maxattrs=3)
               if g["gen"]["seal"] & 4 and len(g["gen"]["attrs"]) > 16]
    crowded.sort(key=lambda g: len(g["bytes"]))
    # (the smallest ones and - a walk that gives up after N attributes never reaches the FINGERPRINT - the one with the most)
    most = max(crowded, key=lambda g: len(g["gen"]["attrs"])) if crowded else None
    crowded = crowded[:(2 if tier == "quick" else 10)]
    if most is not None and most not in crowded:
        crowded.append(most)
    gm += [g for g in crowded if g not in gm]
    gm += [g for g in allfp if g not in gm and len(g["bytes"]) <= 4000]
    base = [{"bytes": g["bytes"], "src": "fingerprinted message %d (%s, seal=%d)" % (g["id"], "external" if g["gen"]["by_ext"] else "builder", g["gen"]["seal"])} for g in gm]
    muts = []
    for g in pick:
        b = g["bytes"]
        for m, what in bit_flips(b):
            muts.append({"bytes": m, "mode": "verdict", "src": "message %d, %s" % (g["id"], what)})
        for m, what in bursts(b, rng, 6 if tier == "quick" else 30):
            muts.append({"bytes": m, "mode": "verdict", "src": "message %d, %s" % (g["id"], what)})
        for _ in range(len(b) * (2 if tier == "quick" else 8)):
            pos = rng.randrange(len(b))
            v = rng.randrange(256)
            if v != b[pos]:
                m = list(b)
                m[pos] = v
                muts.append({"bytes": m, "mode": "verdict", "src": "message %d, byte %d := %d" % (g["id"], pos, v)})
        if pick.index(g) % (7 if tier == "quick" else 2) == 0:
            muts += systematic_fp_mutants(g, rng)
    for g in crowded:
        b = g["bytes"]
        na = len(g["gen"]["attrs"])
        for _ in range((150 if tier == "quick" else 1500) if g is not most or tier != "quick" else 40):
            i = rng.randrange(len(b) * 8)
            m = list(b)
            m[i // 8] ^= 1 << (7 - i % 8)
            muts.append({"bytes": m, "mode": "verdict", "src": "message %d (%d attributes), bit %d flipped" % (g["id"], na, i)})
        for m, what in bursts(b, rng, 3 if g is not most or tier != "quick" else 0):
            muts.append({"bytes": m, "mode": "verdict", "src": "message %d (%d attributes), %s" % (g["id"], na, what)})
        if crowded.index(g) == 0 or tier != "quick":
            muts += systematic_fp_mutants(g, rng)
    pick = pick + crowded
    # a parser is a function of the buffer alone: give a stateful one the chance to show - every now and then the
    # intact original is parsed right before its corrupted copies (same adapter process and thread)
    seq = list(base)
    origin = {g["id"]: g for g in pick}
    for k, m in enumerate(muts):
        if k % 150 == 0:
            gid = int(m["src"].split()[1].rstrip(","))
            seq.append({"bytes": origin[gid]["bytes"], "mode": "verdict", "src": "message %d, intact (again)" % gid})
        seq.append(m)
    triples = run_pipeline(seq, wd, "c09", trace=False, chunk=6000)
    n = 0
    accepted_mutants = 0
    for case, obs, exp, hang in triples:
        must, asis = compare(case, obs, exp, hang)
        if case.get("mode") == "verdict" and exp["parse"]["ok"]:
            accepted_mutants += 1
        for pids, what in must:
            if "C09" in pids or (case.get("mode") == "verdict" and "C02" in pids):
                rep.violation("%s: %s" % (case["src"], what), {"kind": "codec_case", "case": slim(case)})
            else:
                for p in pids:
                    rep.note_foreign(p)
    # what the builder appended must BE the RFC fingerprint: the specification (CRC-32 in TLA+) accepts the message
    for case, obs, exp, hang in triples:
        if case["src"].startswith("fingerprinted message") and "(builder" in case["src"] and not exp["parse"]["ok"]:
            rep.violation("%s: the serialised message does not satisfy the FINGERPRINT relation of the specification (%s)" % (
                case["src"], json.dumps(exp["parse"])), {"kind": "codec_case", "case": slim(case)})
    nb = sum(1 for g in gm if not g["gen"]["by_ext"])
    if nb == 0 or len(pick) < 3:
        raise ToolError("vacuity: no builder-fingerprinted messages generated")
    rep.add_cov(evaluations=len(base) + len(muts), distinct_nontrivial=distinct(muts), fingerprinted_messages=len(base),
                builder_fingerprints_checked_against_tla_crc=nb, mutated_messages=len(pick), mutants=len(muts),
                mutants_accepted_by_both=accepted_mutants,
                samples=[{"message": pick[0]["bytes"], "mutants": [muts[0]["src"], muts[len(muts) // 2]["src"], muts[-1]["src"]]}],
                rule="every generated message with a FINGERPRINT (appended by the builder or computed independently) must be accepted, which in the specification means its FINGERPRINT equals CRC-32 (written in TLA+) of the preceding bytes with the length field covering it, XOR 0x5354554e; for a sample of them ALL single-bit flips, sampled bursts of 2..32 bits at random offsets and random byte substitutions are judged by the TLA+ decoder (which re-checks the CRC whenever the mutant still carries a FINGERPRINT) and the implementation must give the same accept/reject verdict; distinct = distinct mutant buffers")
    rep.assumptions += ["CRC-32 detects all bursts <= 32 bits and all single-bit errors (mathematics, not model checking); TLC contributes the exact per-mutant verdict",
                        "bursts and substitutions are sampled, single-bit flips are complete for the mutated messages"]


def c04(rep, tier, seed, wd):
    rng = random.Random(seed)
    gm = [g for g in gen_messages(500 if tier == "quick" else 5000, seed + 5, wd, maxattrs=3) if g["gen"]["seal"] & 3]
    base = [{"bytes": g["bytes"], "creds": g["creds"], "gid": g["id"], "src": "sealed message %d (%s, seal=%d, trunc=%d)" % (
        g["id"], "external" if g["gen"]["by_ext"] else "builder", g["gen"]["seal"], g["gen"]["trunc"])} for g in gm]
    unsealed = [{"bytes": g["bytes"], "creds": g["creds"][:2], "src": "unsealed message %d" % g["id"]}
                for g in gen_messages(60, seed + 6, wd, maxattrs=3) if not g["gen"]["seal"] & 3]
    small = [g for g in gm if len(g["bytes"]) <= (130 if tier == "quick" else 300) and g["gen"]["trunc"] in (16, 20, 24, 28, 32)]
    small.sort(key=lambda g: (g["gen"]["by_ext"], g["gen"]["seal"]))
    nm = 10 if tier == "quick" else 100
    pick = small[::max(1, len(small) // nm)][:nm]
    muts = []
    for g in pick:
        b = g["bytes"]
        for m, what in bit_flips(b):
            muts.append({"bytes": m, "creds": g["creds"][:1], "gid": g["id"], "mut_pos": int(what.split()[1]) // 8,
                         "src": "sealed message %d (seal=%d), %s" % (g["id"], g["gen"]["seal"], what)})
        for _ in range(len(b) * (1 if tier == "quick" else 8)):
            pos = rng.randrange(len(b))
            v = rng.randrange(256)
            if v != b[pos]:
                m = list(b)
                m[pos] = v
                muts.append({"bytes": m, "creds": g["creds"][:1], "gid": g["id"], "mut_pos": pos, "src": "sealed message %d, byte %d := %d" % (g["id"], pos, v)})
        # the type of an integrity attribute turned into the other integrity type (two bits of one byte: no single flip does it)
        for pos in range(20, len(b) - 3, 4):
            if b[pos] == 0 and b[pos + 1] in (0x08, 0x1c) and b[pos + 2] == 0 and b[pos + 3] in (16, 20, 24, 28, 32):
                m = list(b)
                m[pos + 1] ^= 0x14
                muts.append({"bytes": m, "creds": g["creds"][:1], "gid": g["id"], "mut_pos": pos + 1,
                             "src": "sealed message %d, byte %d := %d (the other integrity type)" % (g["id"], pos + 1, m[pos + 1])})
    triples = run_pipeline(base + unsealed + muts, wd, "c04", trace=False, chunk=3000)
    report_must(rep, "C04", triples, "case")
    # the property's own sentence, judged without the specification's parser: a change anywhere up to and including the
    # integrity attribute that validation checks must not leave a buffer that is accepted AND validates under the sealing key
    covered_end = {}
    for case, obs, exp, hang in triples:
        if "gid" in case and "mut_pos" not in case and exp["parse"]["ok"] and exp["acc"]["plan"]["present"]:
            pl = exp["acc"]["plan"]
            covered_end[case["gid"]] = pl["off"] + 4 + (len(pl["mac"]) + 3) // 4 * 4
    tamper_judged = 0
    for case, obs, exp, hang in triples:
        if "mut_pos" in case and case["mut_pos"] < covered_end.get(case["gid"], 0):
            tamper_judged += 1
            got = ((obs or {}).get("acc") or {}).get("integrity") or [{}]
            if obs and obs["parse"].get("ok") and got[0].get("ok"):
                rep.violation("%s: byte %d lies before the end (%d) of the integrity attribute the sealed message is validated by, yet the changed buffer is accepted by the parser and validates under the sealing credentials (%s)" % (
                    case["src"], case["mut_pos"], covered_end[case["gid"]], json.dumps(got[0])), {"kind": "codec_case", "case": slim(case)})
    for case, obs, exp, hang in triples:
        if not case["src"].startswith("sealed message") or "byte" in case["src"] or "bit " in case["src"]:
            continue
        legal = "trunc=12" not in case["src"] and "trunc=18" not in case["src"] and "trunc=36" not in case["src"]
        if not legal:
            continue
        if not exp["parse"]["ok"]:
            rep.violation("%s: rejected by the specification's parser: %s" % (case["src"], json.dumps(exp["parse"])), {"kind": "codec_case", "case": slim(case)})
        else:
            plan = exp["acc"]["plan"]
            if not (plan["present"] and plan["lenOk"] and oracle_mac_ok(plan, oracle_key(exp["keyplans"][0]))):
                rep.violation("%s: the integrity attribute is not the RFC HMAC of the message under the sealing credentials (independent oracle)" % case["src"],
                              {"kind": "codec_case", "case": slim(case)})
    stat = {"validated_ok": 0, "failed": 0, "missing": 0, "rejected_by_parser": 0, "illegal_length": 0}
    algs = {}
    for case, obs, exp, hang in triples:
        if not exp["parse"]["ok"]:
            stat["rejected_by_parser"] += 1
            continue
        plan = exp["acc"]["plan"]
        if not plan["present"]:
            stat["missing"] += 1
        elif not plan["lenOk"]:
            stat["illegal_length"] += 1
        else:
            for k, got in enumerate((obs or {}).get("acc", {}).get("integrity", [])):
                if got.get("ok"):
                    stat["validated_ok"] += 1
                    algs[got["alg"]] = algs.get(got["alg"], 0) + 1
                else:
                    stat["failed"] += 1
    if stat["validated_ok"] == 0 or stat["failed"] == 0 or stat["missing"] == 0 or len(algs) < 2:
        raise ToolError("vacuity in C04: %s %s" % (stat, algs))
    rep.add_cov(evaluations=len(triples), distinct_nontrivial=distinct(base + muts), sealed_messages=len(base), tampered=len(muts),
                tampered_inside_the_authenticated_range=tamper_judged,
                outcomes=stat, algorithms_reported=algs,
                samples=[{"message": pick[0]["bytes"], "creds": pick[0]["creds"][:2], "tamper": muts[3]["src"]}],
                rule="messages sealed by the builder and, independently, by the adapter's own HMAC code (SHA-1, SHA-256 incl. truncations 16..32 and illegal lengths 12/18/36, both, with/without FINGERPRINT; short- and long-term credentials over random UTF-8 incl. empty and ':'), validated under the sealing credentials and under alternatives (other password, short-vs-long, long-term differing in user or realm); for a sample ALL single-bit flips and random byte substitutions of the whole buffer. The specification's IntegrityPlan names the attribute checked, the exact bytes authenticated (length field rewritten) and the claimed MAC; python's hmac/hashlib computes HMAC/MD5 on exactly those bytes; the implementation's verdict and reported algorithm must equal the result")
    rep.assumptions += ["HMAC-SHA1/SHA256/MD5 of python's standard library are the independent implementation; HMAC collisions do not occur",
                        "tamper evidence itself rests on HMAC, the check establishes that the implementation authenticates exactly the RFC's bytes with the RFC's key"]


CHECKS.update({"C09": ("fault_enumeration", c09), "C04": ("fault_enumeration", c04)})


# --------------------------------------------------------------------------- C08 / C13 / attribute part of C12
BUILTIN = [6, 8, 9, 10, 20, 21, 28, 29, 30, 32, 36, 37, 32770, 32771, 32802, 32803, 32808, 32809, 32810]
TEXT_TYPES = [6, 20, 21, 32802, 32771]
UTF8_ALPHA = [0x00, 0x7f, 0x80, 0xbf, 0xc0, 0xc1, 0xc2, 0xdf, 0xe0, 0xa0, 0x9f, 0xed, 0xef, 0xf0, 0x8f, 0x90, 0xf4, 0xf5, 0xff, 0x41]
TID0 = list(range(1, 13))


def attr_cases(tier, rng):
    cases = []
    def add(ty, val, tid=None, src=""):
        cases.append({"type": ty, "value": list(val), "tid": tid or TID0, "src": src})
    # (a) every length 0..800 (quick: around every guard) for every type, neutral content
    if tier == "quick":
        lens = sorted(set(list(range(0, 41)) + list(range(505, 520)) + list(range(758, 775)) + [252, 253, 254, 255, 256, 257, 800]))
    else:
        lens = list(range(0, 801))
    for ty in BUILTIN:
        for n in lens:
            fill = 0x61 if ty in TEXT_TYPES else (n * 7) % 256
            v = [fill] * n
            if ty == 9 and n >= 4:
                v[0:4] = [0, 0, 4, 20]
            if ty in (32, 32803) and n >= 2:
                v[0:2] = [0, 1 if n < 14 else 2]
            if ty in (29, 32770):
                v = [([0, 1, 0, 0] if (i // 4) % 2 == 0 else [0, 2, 0, 0])[i % 4] for i in range(n)]
            add(ty, v, src="length sweep")
    # (b) UTF-8 boundary alphabet: all strings of length <= 2, sampled 3 and 4, for the text types and the ERROR-CODE reason
    import itertools
    seqs = [()] + [(a,) for a in UTF8_ALPHA] + list(itertools.product(UTF8_ALPHA, repeat=2))
    seqs += [tuple(rng.choice(UTF8_ALPHA) for _ in range(rng.choice([3, 4]))) for _ in range(600 if tier == "quick" else 6000)]
    good = [[0xc2, 0x80], [0xdf, 0xbf], [0xe0, 0xa0, 0x80], [0xed, 0x9f, 0xbf], [0xef, 0xbf, 0xbf], [0xf0, 0x90, 0x80, 0x80], [0xf4, 0x8f, 0xbf, 0xbf]]
    for ty in TEXT_TYPES:
        for s in seqs if ty in (6, 32802) or tier != "quick" else seqs[::7]:
            add(ty, list(s), src="utf-8 alphabet")
        for g in good:
            add(ty, g, src="utf-8 good")
            add(ty, g[:-1], src="utf-8 cut")
    for s in seqs[::5]:
        add(9, [0, 0, 3, 0] + list(s), src="error reason utf-8")
    # every single byte, and all pairs / sampled triples over punctuation that parsers of quoted or delimited text trip on
    punct = [0x22, 0x27, 0x20, 0x3a, 0x5c, 0x25, 0x7b, 0x7d, 0x2e, 0x2f, 0x40, 0x0a, 0x09, 0x61]
    shorts = [(b,) for b in range(256)] + list(itertools.product(punct, repeat=2)) + \
             [tuple(rng.choice(punct) for _ in range(3)) for _ in range(150 if tier == "quick" else 2000)]
    # text with leading / trailing bytes that "lenient" decoders trim or normalise (NUL, blank, tab, line ends, BOM,
    # upper case, non-breaking space) at every length residue modulo 4
    edge = [[0], [0x20], [0x09], [0x0a], [0x0d, 0x0a], [0xef, 0xbb, 0xbf], [0xc2, 0xa0], [0x41], [0xe2, 0x80, 0xa8]]
    for core_len in range(0, 6):
        core = [0x61 + i for i in range(core_len)]
        for e in edge:
            for rep in (1, 2, 3, 4):
                shorts.append(tuple(core + e * rep))
                shorts.append(tuple(e * rep + core))
            shorts.append(tuple(e + core + e))
            shorts.append(tuple(core[:2] + e + core[2:]))
    for ty in TEXT_TYPES:
        for v in shorts:
            add(ty, list(v), src="short text")
    for v in shorts[::3]:
        add(9, [0, 0, 4, 1] + list(v), src="short error reason")
    # (c) ERROR-CODE class/number bytes (thorough: all 65536 pairs)
    if tier == "quick":
        pairs = [(c, x) for c in range(256) for x in (0, 1, 98, 99, 100, 101, 255)] + [(c, x) for c in (0, 2, 3, 4, 6, 7, 8, 11, 14, 15, 0xfb, 0xfe) for x in range(256)]
    else:
        pairs = [(c, x) for c in range(256) for x in range(256)]
    for c, x in pairs:
        add(9, [0, 0, c, x] + ([0x6f, 0x6b] if (c + x) % 3 == 0 else []), src="error class/number")
    for r0, r1 in [(1, 0), (0, 1), (255, 255)]:
        add(9, [r0, r1, 4, 1], src="error reserved bits")
    # (d) addresses: every family byte x lengths; first byte; all-ones / cookie-equal addresses; ports
    for ty in (32, 32803):
        for fam in range(256):
            for n in (4, 8, 20, 12):
                add(ty, [0, fam] + [(fam * 3 + i) % 256 for i in range(n - 2)], src="family byte")
        for first in (1, 255):
            add(ty, [first, 1, 0x12, 0x34, 1, 2, 3, 4], src="address first byte")
        for port in [0, 1, 0x2112, 0x2113, 0xffff, 0x8000] + [rng.randrange(65536) for _ in range(20)]:
            for ip in ([0, 0, 0, 0], [255] * 4, [0x21, 0x12, 0xa4, 0x42], [rng.randrange(256) for _ in range(4)]):
                add(ty, [0, 1, port >> 8, port & 255] + ip, src="v4 address")
            for shaped_ip in ([0] * 12 + [192, 0, 2, 1], [0] * 15 + [1], [1, 2, 3, 4, 5, 6, 7, 8, 0x80, 0x28, 0, 4, 9, 9, 9, 9]):
                add(ty, [0, 2, port >> 8, port & 255] + shaped_ip, src="shaped v6 address")
            v4m = [0] * 10 + [255, 255, 192, 0, 2, 1]                       # ::ffff:192.0.2.1
            xkey = [0x21, 0x12, 0xa4, 0x42] + TID0
            v4m_wire = [a ^ b for a, b in zip(v4m, xkey)]                   # its XORed form reads ::ffff:... under TID0
            for ip in ([0] * 16, [255] * 16, [0x21, 0x12, 0xa4, 0x42] + TID0, v4m, v4m_wire, [0] * 12 + [10, 0, 0, 1], [rng.randrange(256) for _ in range(16)]):
                for tid in (TID0, [0] * 12, [255] * 12, [rng.randrange(256) for _ in range(12)]):
                    add(ty, [0, 2, port >> 8, port & 255] + ip, tid=tid, src="v6 address")
    # (e) password algorithms: ids, parameter lengths, trailing bytes, lists
    for alg in range(0, 5):
        for plen in (0, 1, 4):
            add(29, [0, alg, 0, plen] + [0] * plen, src="password algorithm")
            add(32770, [0, alg, 0, plen] + [0] * plen, src="password algorithms")
            add(32770, [0, 1, 0, 0, 0, alg, 0, plen] + [0] * plen, src="password algorithms")
    for plen in (0xfffc, 0xfffd, 0xfffe, 0xffff, 0x8000, 0x0100):
        add(29, [0, 1, plen >> 8, plen & 255], src="password algorithm, declared parameter length at the 16-bit boundary")
        add(32770, [0, 2, plen >> 8, plen & 255], src="password algorithms, declared parameter length at the 16-bit boundary")
        add(32770, [0, 1, 0, 0, 0, 2, plen >> 8, plen & 255], src="password algorithms, second entry with a huge declared parameter length")
    # multi-byte text around the byte limits (limits are in bytes, not characters)
    for ty, lim in ((6, 513), (20, 763), (21, 763), (32802, 763), (32771, 255)):
        for ch in ([0xc3, 0xa9], [0xe2, 0x82, 0xac], [0xf0, 0x9f, 0x98, 0x80]):
            for n in (lim - len(ch), lim - 1, lim, lim + 1, lim + len(ch), 800 - 800 % len(ch)):
                k = n // len(ch)
                v = ch * k + [0x61] * (n - k * len(ch))
                add(ty, v, src="multi-byte text of %d bytes" % n)
        add(9, [0, 0, 4, 0] + [0xc3, 0xa9] * 382, src="error reason, 764 bytes of 2-byte characters")
        add(9, [0, 0, 4, 0] + [0xc3, 0xa9] * 381 + [0x61], src="error reason, 763 bytes of 2-byte characters")
    add(29, [0, 1, 0, 0, 0, 0, 0, 0], src="password algorithm trailing bytes")
    add(32770, [0, 1, 0, 4, 0, 2, 0, 0], src="password algorithms: parameters that read like another entry")
    add(32770, [0, 2, 0, 8, 0, 1, 0, 0, 0, 2, 0, 0], src="password algorithms: parameters that read like two entries")
    add(29, [0, 1, 0, 4, 0, 2, 0, 0], src="password algorithm with parameters")
    add(10, [0, 0x24, 0, 0x25, 0x80, 0x2a, 0, 6], src="unknown attributes, unsorted")
    add(10, [0, 6, 0, 6, 0x80, 0x2a, 0, 6], src="unknown attributes, repeated")
    add(29, [1, 1, 0, 0], src="password algorithm high byte")
    # the algorithm number is 16 bits: numbers that agree with MD5 / SHA-256 in one byte only, in both positions
    for hi, lo in ((1, 1), (2, 1), (0xff, 2), (1, 2), (0x80, 1), (1, 0), (2, 0), (0, 0x81), (0, 0x82), (2, 2)):
        add(29, [hi, lo, 0, 0], src="password algorithm number 0x%02x%02x" % (hi, lo))
        add(32770, [hi, lo, 0, 0], src="password algorithms, number 0x%02x%02x" % (hi, lo))
        add(32770, [0, 2, 0, 0, hi, lo, 0, 0], src="password algorithms, second number 0x%02x%02x" % (hi, lo))
    add(32770, [0, 1, 0, 0, 0, 2, 0, 0, 0, 2, 0, 0], src="password algorithms list")
    # (f) unknown-attributes lists, fixed-size blobs with random content
    for n in (0, 2, 4, 6, 40):
        add(10, [rng.randrange(256) for _ in range(n)], src="unknown attributes")
    for ty, n in ((8, 20), (28, 16), (28, 20), (28, 24), (28, 28), (28, 32), (30, 32), (36, 4), (32808, 4), (32809, 8), (32810, 8)):
        for _ in range(4):
            add(ty, [rng.randrange(256) for _ in range(n)], src="random blob")
        add(ty, [255] * n, src="all ones")
    # (h) text that carries structure some other layer gives a meaning to: the RFC 8489 nonce cookie with well-formed, short and
    #     malformed security-feature bits, quoted strings, line breaks and other control characters, text that looks like a header
    cookie = list(b"obMatJos2")
    nonceish = [cookie[:k] for k in (1, 8, 9)] + [cookie + list(t) for t in (b"A", b"AA", b"AAA", b"AAAA", b"AAAAx", b"AA==", b"====", b"!!!!", b"\xc3\xa9\xc3\xa9",
                b"A\xc3\xa9A", b"AAA\xc3\xa9", b"gAAA" + b"n" * 20, b"////rest", b"-_-_", b"AAA ", b" AAA")]
    ctl = [list(t) for t in (b"\n", b"a\n", b"a\nb", b"\r\n", b"a\r\nb\r\n", b"\t", b"a\tb", b"line one\nline two", b"\x0b\x0c", b"\x1b[0m", b"a\x00b",
           b'"', b'""', b'"a"', b'"a', b'a"', b"'a'", b"<a>", b"a\\", b"\\\"", b"%00", b"\xe2\x80\xa8", b"\xc2\x85")]
    for ty in TEXT_TYPES:
        for v in nonceish + ctl:
            add(ty, v, src="structured text")
    for v in nonceish[::2] + ctl:
        add(9, [0, 0, 4, 20] + v, src="error reason, structured text")
    # (i) text whose last character is cut or complete exactly at the byte limits (and the ERROR-CODE reason likewise)
    for ty, lim in ((6, 513), (20, 763), (21, 763), (32802, 763), (32771, 255), (9, 763)):
        pre = [0, 0, 4, 0] if ty == 9 else []
        for n in (lim - 1, lim, lim + 1, lim + 4, 40):
            for tail in ([0xc3], [0xe2, 0x82], [0xf0, 0x9f, 0x98], [0xc3, 0xa9], [0xe2, 0x82, 0xac], [0x80], [0xff]):
                if n > len(tail):
                    add(ty, pre + [0x61] * (n - len(tail)) + tail, src="text of %d bytes ending in %s" % (n, tail))
                    add(ty, pre + tail + [0x61] * (n - len(tail)), src="text of %d bytes starting with %s" % (n, tail))
    # (j) types next to the built-in ones (the other comprehension half, +-1, a byte-swapped code) with a value the built-in
    #     decoder of the neighbour would take: every decoder must refuse them as the wrong implementation
    sample = {6: [0x61] * 5, 8: [7] * 20, 9: [0, 0, 4, 20, 0x6f, 0x6b], 10: [0, 6, 0, 8], 20: [0x61] * 4, 21: [0x61] * 4, 28: [7] * 32, 29: [0, 1, 0, 0],
              30: [7] * 32, 32: [0, 1, 0x12, 0x34, 1, 2, 3, 4], 36: [0, 0, 0, 9], 37: [], 32770: [0, 1, 0, 0, 0, 2, 0, 0], 32771: [0x61] * 6,
              32802: [0x61] * 6, 32803: [0, 1, 0x12, 0x34, 1, 2, 3, 4], 32808: [1, 2, 3, 4], 32809: [1] * 8, 32810: [1] * 8}
    for ty in BUILTIN:
        for near in (ty ^ 0x8000, ty + 1, ty - 1, ((ty & 0xff) << 8) | (ty >> 8), ty ^ 0x0100, ty ^ 0x0001):
            if near not in BUILTIN and 0 <= near <= 0xffff:
                add(near, sample[ty], src="type next to the built-in type %d" % ty)
        if ty in (32, 32803):
            add(ty ^ 0x8000, [0, 2, 0x12, 0x34] + [9] * 16, src="type next to the built-in type %d (IPv6 value)" % ty)
    # (k) values that are themselves (almost) STUN messages - a relayed payload, an encapsulated check: header with the cookie, inner
    #     length field smaller than, equal to and larger than what follows, with and without an inner attribute
    hdr = lambda ilen: [0, 1, ilen >> 8, ilen & 255, 0x21, 0x12, 0xa4, 0x42] + list(range(12))
    inner = [0x80, 0x22, 0, 4, 0x61, 0x62, 0x63, 0x64]
    for ty in (0x0013, 0x7f00, 0x8000, 0x0012, 32, 6, 20, 32802):
        for ilen in (0, 4, 8, 12, 100, 0x7fff, 0xfffc, 0xffff, 3):
            for body in ([], inner, inner[:5], inner + [0x80, 0x28, 0, 4, 1, 2, 3, 4]):
                add(ty, hdr(ilen) + body, src="value that looks like a STUN message (inner length %d, %d bytes follow)" % (ilen, len(body)))
        add(ty, hdr(8)[:19], src="value that looks like a cut STUN header")
        add(ty, [0, 0] + hdr(8) + inner, src="value that looks like a framed STUN message")
    # (g) raw attributes of other types (no built-in decoder): serialisation paths and wrong-implementation refusals
    for n in (lens if tier != "quick" else lens[::3]):
        add(rng.choice([0x7f00, 0xff00, 0x0001, 0x8000]), [rng.randrange(256) for _ in range(n)], src="raw attribute")
    return cases


def run_attr_pipeline(cases, wd, tag):
    cp = os.path.join(wd, tag + ".cases")
    op = os.path.join(wd, tag + ".obs")
    with open(cp, "w") as f:
        for c in cases:
            f.write(json.dumps(c) + "\n")
    run_harness(["attrs", cp, op])
    obs = read_ndjson(op)
    r = tlc_judge("MCAttrs.tla", "MCAttrs.cfg", {"CASES": cp}, "attribute judge")
    if '"ATTR-ALGEBRA-OK"' not in r["out"]:
        raise ToolError("MCAttrs: in-spec theorems not evaluated")
    exps = {}
    for ln in r["out"].splitlines():
        if ln.startswith('"EXPECT '):
            e = json.loads(json.loads(ln)[7:])
            exps[e["i"]] = e
    if len(exps) != len(cases) or len(obs) != len(cases):
        raise ToolError("attribute judge saw %d/%d cases, adapter %d" % (len(exps), len(cases), len(obs)))
    os.remove(cp)
    os.remove(op)
    return [(c, obs[k], exps[k + 1]) for k, c in enumerate(cases)]


FIELD_KEYS = ("text", "code", "list", "hmac", "hash", "u32", "fp", "u64", "alg", "algs", "addr")


def compare_attr(case, obs, exp):
    must, asis = [], []
    ty = case["type"]
    d = obs["dec"]
    if "panic" in d or find_panic(obs):
        must.append((["C01", "C08"], "panic: %s" % json.dumps(find_panic(obs))[:200]))
        return must, asis
    if obs.get("wrong_impl_bad"):
        must.append((["C08"], "decoders of other types did not refuse as the wrong implementation: %s" % json.dumps(obs["wrong_impl_bad"])[:200]))
    raw = obs["raw"]
    wire = exp["wire"]
    # raw attribute: all serialisation paths give the TLV wire form (C12)
    if raw["bytes"] != wire or raw["write"].get("bytes") != wire or raw["padded_len"] != len(wire) or raw["length"] != len(case["value"]) \
            or raw["write"].get("n") != len(wire) or raw["write"].get("tail_intact") is not True or not raw["reparsed"]:
        must.append((["C12"], "raw attribute serialisation: %s, specification wire form %s" % (json.dumps({k: raw[k] for k in ("padded_len", "length", "reparsed")}), wire[:12])))
    if ty not in BUILTIN:
        if d.get("err") != "NoBuiltinDecoder":
            raise ToolError("adapter: unexpected decoder for type %d" % ty)
        return must, asis
    vd = exp["verdict"]
    if vd == "asis":
        # whether such a value decodes is left open; if it does, the implementation's own serialisation paths must
        # still agree with each other (C12 does not depend on the value being a legal encoding)
        enc = d.get("enc") if d.get("ok") else None
        if enc:
            wb = enc.get("write", {})
            if enc.get("raw_bytes") != wb.get("bytes") or enc.get("padded_len") != len(enc.get("raw_bytes") or []) \
                    or wb.get("n") != enc.get("padded_len") or enc.get("length") != enc.get("raw_len") or wb.get("tail_intact") is not True:
                must.append((["C12"], "serialisation paths of a decoded value disagree with each other: to_raw().to_bytes() %d bytes (length %s), write_into %s bytes (length() %s)" % (
                    len(enc.get("raw_bytes") or []), enc.get("raw_len"), wb.get("n"), enc.get("length"))))
        return must, asis
    if vd == "invalid":
        if d.get("ok"):
            must.append((["C08"], "decoded a value the RFC encoding rules do not allow: %s" % json.dumps({k: d[k] for k in d if k in FIELD_KEYS})[:200]))
        return must, asis
    if not d.get("ok"):
        # (an XOR-MAPPED-ADDRESS that is refused does not return the address that was put in either)
        must.append((["C13", "C08"] if ty == 32 else ["C08"], "refused a legal value: %s" % json.dumps(d)))
        return must, asis
    ef = exp["fields"]
    for k in FIELD_KEYS:
        if k in ef:
            want = ef[k]
            got = d.get(k)
            if k == "addr":
                want = {"fam": want["fam"], "ip": want["ip"], "port": want["port"]}
            if got != want:
                must.append((["C13", "C08"] if ty == 32 else ["C08"], "field %s: impl %s spec %s" % (k, str(got)[:120], str(want)[:120])))
    if d.get("has_all") is False:
        must.append((["C08"], "UNKNOWN-ATTRIBUTES: has_attribute() denies a type that is in the decoded list %s" % d.get("list")))
    if d.get("has_extra"):
        must.append((["C08"], "UNKNOWN-ATTRIBUTES: has_attribute() claims types %s that are not among the encoded entries %s" % (d.get("has_extra"), str(d.get("list"))[:120])))
    canon = exp["canon"]
    if d.get("re_add") is not None and d.get("re_add") != d.get("re"):
        must.append((["C08"], "UNKNOWN-ATTRIBUTES assembled with add_attribute() encodes %s, the same list through new() %s" % (str(d.get("re_add"))[:100], str(d.get("re"))[:100])))
    if d.get("re") != canon:
        must.append((["C13", "C08"] if ty == 32 else ["C08"], "re-encoding through the constructor: %s, canonical %s" % (str(d.get("re"))[:100], canon[:30])))
    if d.get("re_builder", canon) != canon:
        must.append((["C08"], "ErrorCode::builder re-encoding differs"))
    enc = d.get("enc", {})
    if enc:
        vlen = len(canon) - 4 - ((4 - (len(exp["wire"]) - 4 - len(case["value"])) % 4) % 4 if False else 0)
        ok_paths = enc.get("raw_bytes") == canon and enc.get("write", {}).get("bytes") == canon and enc.get("padded_len") == len(canon) \
            and enc.get("write", {}).get("n") == len(canon) and enc.get("write", {}).get("tail_intact") is True \
            and enc.get("type") == ty and enc.get("raw_type") == ty
        declared = canon[2] * 256 + canon[3]
        if not ok_paths or enc.get("length") != declared or enc.get("raw_len") != declared:
            must.append((["C12", "C08"] + (["C13"] if ty == 32 else []), "serialisation paths of the decoded value disagree with the canonical wire form: %s vs %s" % (
                json.dumps({k: enc.get(k) for k in ("length", "padded_len", "raw_len")}), canon[:16])))
        ws = enc.get("write_short", {})
        if len(canon) > 0 and not (ws.get("err") == "TooSmall" and ws.get("expected") == len(canon) and ws.get("actual") == len(canon) - 1 and ws.get("untouched") is True):
            must.append((["C12"], "write_into a buffer one byte short: %s" % json.dumps(ws)))
    if d.get("eq_self") is False:
        must.append((["C08"], "decoded value is not equal to its clone"))
    return must, asis


def attr_check(pid, rep, tier, seed, wd, only_types=None):
    rng = random.Random(seed)
    cases = attr_cases(tier, rng)
    if only_types:
        cases = [c for c in cases if c["type"] in only_types]
    trip = run_attr_pipeline(cases, wd, "attrs")
    stats = {"valid": 0, "invalid": 0, "asis": 0}
    per_type = {}
    for case, obs, exp in trip:
        stats[exp["verdict"]] += 1
        per_type[case["type"]] = per_type.get(case["type"], 0) + 1
        must, asis = compare_attr(case, obs, exp)
        for pids, what in must:
            if pid in pids:
                rep.violation("attribute type %d (%s), value %s: %s" % (case["type"], case["src"], str(case["value"])[:80], what),
                              {"kind": "attr_case", "case": case})
            else:
                for p in pids:
                    rep.note_foreign(p)
    return cases, stats, per_type


def c08(rep, tier, seed, wd):
    cases, stats, per_type = attr_check("C08", rep, tier, seed, wd)
    if stats["valid"] < 100 or stats["invalid"] < 100 or len([t for t in per_type if t in BUILTIN]) != 19:
        raise ToolError("vacuity in C08: %s" % stats)
    rep.add_cov(evaluations=len(cases), distinct_nontrivial=len({(c["type"], bytes(c["value"])) for c in cases}),
                verdicts=stats, cases_per_type={str(k): v for k, v in per_type.items()},
                samples=[cases[10], cases[len(cases) // 2]],
                rule="per type: every value length 0..800 (quick: around every guard 0..40, 505..519, 758..774) with neutral content; all strings over a 20-byte UTF-8 boundary alphabet of length <= 2 and sampled 3-4 for the text types and the ERROR-CODE reason; ERROR-CODE class/number bytes (thorough: all 65536 pairs; quick: all classes x boundary numbers + boundary classes x all numbers); every address family byte x lengths; password algorithm ids, parameter lengths, trailing bytes; random fixed-size blobs. TLC (MCAttrs) gives Verdict/Fields/canonical encoding per case and checks the in-spec round-trip theorems on complete small domains; compared: accept/refuse, every exposed field, re-encoding through the public constructor, wrong-implementation refusal by the 18 other decoders")
    rep.assumptions += ["USERNAME 509..513 bytes, ALTERNATE-DOMAIN > 255 bytes, empty PASSWORD-ALGORITHMS, set reserved bits are as-is (RFCs disagree or leave open)",
                        "the error variant for an invalid value is not compared"]


def c13(rep, tier, seed, wd):
    rng = random.Random(seed)
    cases = [c for c in attr_cases(tier, rng) if c["type"] == 32]
    # many more random addresses / ids / ports for the XOR attribute
    n = 3000 if tier == "quick" else 30000
    for _ in range(n):
        tid = rng.choice([TID0, [0] * 12, [255] * 12, [rng.randrange(256) for _ in range(12)]])
        port = rng.choice([0, 0x2112, 0xffff, rng.randrange(65536)])
        if rng.random() < 0.5:
            ip = rng.choice([[0] * 4, [255] * 4, [0x21, 0x12, 0xa4, 0x42], [rng.randrange(256) for _ in range(4)]])
            cases.append({"type": 32, "value": [0, 1, port >> 8, port & 255] + ip, "tid": tid, "src": "random v4"})
        else:
            ip = rng.choice([[0] * 16, [255] * 16, [0x21, 0x12, 0xa4, 0x42] + tid, [rng.randrange(256) for _ in range(16)]])
            cases.append({"type": 32, "value": [0, 2, port >> 8, port & 255] + ip, "tid": tid, "src": "random v6"})
    # wire forms of a particular shape: IPv4-mapped / IPv4-compatible / zero / loopback looking, and values that end like
    # a FINGERPRINT or MESSAGE-INTEGRITY attribute header
    for k in range(60 if tier == "quick" else 600):
        tid = rng.choice([TID0, [0] * 12, [rng.randrange(256) for _ in range(12)]])
        port = rng.choice([0, 0x2112, rng.randrange(65536)])
        r4 = [rng.randrange(256) for _ in range(4)]
        r8 = [rng.randrange(256) for _ in range(8)]
        for ip in ([0] * 10 + [255, 255] + r4, [0] * 12 + r4, [0] * 15 + [1], r8 + [0x80, 0x28, 0, 4] + r4, r8 + [0, 8, 0, 20] + r4,
                   [0x20, 0x01, 0x0d, 0xb8] + [0] * 4 + [0x80, 0x28, 0, 4, 0, 0, 0, 1]):
            cases.append({"type": 32, "value": [0, 2, port >> 8, port & 255] + ip, "tid": tid, "src": "shaped v6 wire form"})
    # addresses of special ranges (loopback, unspecified, broadcast, multicast, link-local, private, documentation, NAT64 ...),
    # once as the WIRE form (what a check applied before the XOR is undone would look at) and once as the REAL address (the
    # wire form is then the pattern XOR cookie||id: the judge is given wire bytes, so the mask is applied here - assembling,
    # the expected address comes from the specification)
    sp4 = [[127, 0, 0, 1], [127, 255, 255, 255], [0, 0, 0, 0], [255, 255, 255, 255], [224, 0, 0, 1], [239, 255, 255, 250], [169, 254, 1, 1],
           [10, 0, 0, 1], [192, 168, 0, 1], [172, 16, 0, 1], [100, 64, 0, 1], [192, 0, 2, 1], [198, 18, 0, 1], [240, 0, 0, 1], [1, 0, 0, 0], [0, 0, 0, 1]]
    sp6 = [[0] * 15 + [1], [0] * 16, [0xfe, 0x80] + [0] * 13 + [1], [0xff, 2] + [0] * 13 + [1], [0xfc] + [0] * 14 + [1], [0xfd] + [0] * 14 + [1],
           [0x20, 1, 0x0d, 0xb8] + [0] * 11 + [1], [0, 0x64, 0xff, 0x9b] + [0] * 8 + [192, 0, 2, 1], [0x20, 2] + [0] * 13 + [1], [0xfe, 0xc0] + [0] * 13 + [1],
           [0] * 10 + [255, 255, 127, 0, 0, 1], [0x20, 1, 0, 0] + [0] * 11 + [1]]
    cookie = [0x21, 0x12, 0xa4, 0x42]
    for tid in (TID0, [0] * 12, [255] * 12, [rng.randrange(256) for _ in range(12)]):
        for port in (0, 0x2112, 3478, 65535):
            wp = [port >> 8, port & 255]
            rp = [(port >> 8) ^ 0x21, (port & 255) ^ 0x12]
            for ip in sp4:
                cases.append({"type": 32, "value": [0, 1] + wp + ip, "tid": tid, "src": "special-range v4 as wire form"})
                cases.append({"type": 32, "value": [0, 1] + rp + [a ^ b for a, b in zip(ip, cookie)], "tid": tid, "src": "special-range v4 as real address"})
            for ip in sp6:
                cases.append({"type": 32, "value": [0, 2] + wp + ip, "tid": tid, "src": "special-range v6 as wire form"})
                cases.append({"type": 32, "value": [0, 2] + rp + [a ^ b for a, b in zip(ip, cookie + tid)], "tid": tid, "src": "special-range v6 as real address"})
    # all ports once
    for port in range(0, 65536, 1 if tier != "quick" else 17):
        cases.append({"type": 32, "value": [0, 1, port >> 8, port & 255, 10, 0, 0, 1], "tid": TID0, "src": "port sweep"})
    trip = run_attr_pipeline(cases, wd, "xor")
    nv = 0
    for case, obs, exp in trip:
        nv += exp["verdict"] == "valid"
        must, asis = compare_attr(case, obs, exp)
        for pids, what in must:
            if "C13" in pids:
                rep.violation("XOR-MAPPED-ADDRESS value %s under id %s: %s" % (case["value"], case["tid"], what), {"kind": "attr_case", "case": case})
            else:
                for p in pids:
                    rep.note_foreign(p)
    # after a trip through the wire the attribute must still be found as the one that was put in: a message with another
    # attribute type in front of a genuine XOR-MAPPED-ADDRESS (every type code below 0x100, around 0x8000, every 13th /
    # all in the thorough tier) - lookups of 0x0020 must return the genuine one
    tset = sorted(set(list(range(0, 0x100)) + list(range(0x8000, 0x8100)) + (list(range(0, 0x10000, 13)) if tier == "quick" else list(range(0x10000)))) - {8, 28, 32808, 0x20})
    mcases = []
    for t in tset:
        front = [t >> 8, t & 255, 0, 8, 0, 1, 0x33, 0x33, 9, 9, 9, 9]
        xma = [0, 0x20, 0, 8, 0, 1, 0x2c, 0x88, 0xea, 0x12, 0xd5, 0x45]
        body = front + xma
        mcases.append({"bytes": [1, 1, 0, len(body), 0x21, 0x12, 0xa4, 0x42] + TID0 + body, "lookup": [0x20, t],
                       "src": "XOR-MAPPED-ADDRESS behind an attribute of type %#06x" % t})
    # ... and messages that END in an IPv6 XOR-MAPPED-ADDRESS whose wire form ends like a FINGERPRINT attribute, is
    # IPv4-mapped, or is all zero (success responses without any sealing: the address must survive the wire)
    shaped = []
    for k in range(40 if tier == "quick" else 400):
        r4 = [rng.randrange(256) for _ in range(4)]
        r8 = [rng.randrange(256) for _ in range(8)]
        tidk = rng.choice([TID0, [0] * 12, [rng.randrange(256) for _ in range(12)]])
        for ip in (r8 + [0x80, 0x28, 0, 4] + r4, [0] * 10 + [255, 255] + r4, [0] * 16, r8 + [0, 8, 0, 20] + r4, r8 + [0, 0x1c, 0, 32] + r4):
            val = [0, 2, 0x12, 0x34] + ip
            front = rng.choice([[], [0x80, 0x22, 0, 3, 65, 66, 67, 0]])
            body = front + [0, 0x20, 0, 20] + val
            shaped.append({"bytes": [1, 1, 0, len(body), 0x21, 0x12, 0xa4, 0x42] + tidk + body, "lookup": [0x20], "xval": val, "xtid": tidk,
                           "src": "message ending in an XOR-MAPPED-ADDRESS with wire form %s" % val})
    swant = run_attr_pipeline([{"type": 32, "value": c["xval"], "tid": c["xtid"], "src": "shaped"} for c in shaped], wd, "xorshaped")
    for (case, obs, exp, hang), (_c, _o, aexp) in zip(run_pipeline([{k: v for k, v in c.items() if k not in ("xval", "xtid")} for c in shaped], wd, "xorshaped", trace=False), swant):
        must, asis = compare(case, obs, exp, hang)
        wa = aexp["fields"]["addr"]
        wa = {"fam": wa["fam"], "ip": wa["ip"], "port": wa["port"]}
        xm = [t for t in (obs or {}).get("acc", {}).get("typed", []) if isinstance(t, dict) and t.get("type") == 0x20] if obs else []
        if obs and obs["parse"].get("ok") and (len(xm) != 1 or xm[0].get("addr") != wa):
            must.append((["C13"], "the XOR-MAPPED-ADDRESS of the message decodes to %s, specification %s" % (json.dumps([x.get("addr") for x in xm]), json.dumps(wa))))
        for pids, what in must:
            # whatever goes wrong with such a message, the address did not survive the wire
            rep.violation("%s: %s" % (case["src"], what), {"kind": "codec_case", "case": slim(case)})
    # what that value decodes to is the specification's business (StunAttrs via the attribute judge)
    want_addr = run_attr_pipeline([{"type": 32, "value": [0, 1, 0x2c, 0x88, 0xea, 0x12, 0xd5, 0x45], "tid": TID0, "src": "front"}], wd, "xorwant")[0][2]["fields"]["addr"]
    want_addr = {"fam": want_addr["fam"], "ip": want_addr["ip"], "port": want_addr["port"]}
    for case, obs, exp, hang in run_pipeline(mcases, wd, "xorfront", trace=False):
        must, asis = compare(case, obs, exp, hang)
        xm = [t for t in (obs or {}).get("acc", {}).get("typed", []) if isinstance(t, dict) and t.get("type") == 0x20] if obs else []
        if obs and obs["parse"].get("ok") and (len(xm) != 1 or xm[0].get("addr") != want_addr):
            must.append((["C13"], "the XOR-MAPPED-ADDRESS of the message decodes to %s" % json.dumps([x.get("addr") for x in xm])))
        for pids, what in must:
            if "C13" in pids:
                rep.violation("%s: %s" % (case["src"], what), {"kind": "codec_case", "case": slim(case)})
            else:
                for p in pids:
                    rep.note_foreign(p)
    # constructor direction: new(addr, tid) -> wire -> addr, and decoding under another id (adapter mode xor)
    xp = os.path.join(wd, "xor.ndjson")
    run_harness(["xor", xp, str(seed), str(2000 if tier == "quick" else 50000)])
    recs = read_ndjson(xp)
    r = tlc_judge("MCXor.tla", "MCXor.cfg", {"TABLE": xp}, "MCXor")
    m = re.search(r'"JUDGED (\d+)"', r["out"])
    if not m or int(m.group(1)) != len(recs):
        raise ToolError("MCXor judged %s of %d" % (m.group(1) if m else None, len(recs)))
    for mm in re.finditer(r'"MISMATCH (\d+)"', r["out"]):
        rec = recs[int(mm.group(1)) - 1]
        rep.violation("XorMappedAddress::new/addr: %s" % json.dumps(rec)[:300], {"kind": "table_record", "record": rec})
    os.remove(xp)
    rep.add_cov(evaluations=len(cases) + len(recs), distinct_nontrivial=len({(bytes(c["value"]), bytes(c["tid"])) for c in cases}) + len(recs),
                valid_wire_values=nv, constructor_round_trips=len(recs),
                samples=[cases[-1], recs[0]],
                rule="wire values (IPv4/IPv6, all-zero/all-one/cookie-equal addresses, ports incl. 0, 0x2112, 0xffff and a sweep of all ports (quick: every 17th), boundary and random transaction ids) decoded by the implementation and by XorAddr in TLA+; constructor direction: XorMappedAddress::new(a, t) -> to_raw -> from_raw -> addr(t) = a, wire bytes = the TLA+ encoding, and an IPv6 value read under another id differs; byte-wise XOR involution/injectivity and all 65536 ports checked exhaustively in the specification (MCAttrs ASSUMEs)")
    rep.assumptions += ["addresses are sampled with boundary patterns; IPv6 flow label / scope id are not representable in the attribute"]


CHECKS.update({"C08": ("model_checking", c08), "C13": ("model_checking", c13)})


# --------------------------------------------------------------------------- builder: C11 / C03 / C12
def builder_run(tier, wd):
    """model-check StunBuilder, dump its LTS, walk every operation sequence on the real builder"""
    mc = run_tlc("StunBuilder.tla", "StunBuilder_mc.cfg", workers=4, timeout=1800)
    tlc_ok(mc, "StunBuilder")
    ltsp = os.path.join(wd, "builder.lts")
    lres = run_tlc("StunBuilder.tla", "StunBuilder_lts.cfg", workers=1, timeout=1800, out_path=ltsp)
    # out_path filtering keeps non-EDGE lines in lres["out"]; the adapter reads the raw file (EDGE + KINDS lines)
    tlc_ok(lres, "StunBuilder LTS")
    runs = []
    for depth, alpha in ([(4, "full"), (6, "reduced"), (6, "reduced2")] if tier == "quick" else [(5, "full"), (7, "reduced"), (7, "reduced2")]):
        op = os.path.join(wd, "builder_%s.out" % alpha)
        run_harness(["builder", ltsp, op, str(depth), alpha], timeout=3000)
        recs = read_ndjson(op)
        os.remove(op)
        runs.append((depth, alpha, recs))
    os.remove(ltsp)
    return mc, lres, runs


def builder_check(pid, rep, tier, seed, wd):
    mc, lres, runs = builder_run(tier, wd)
    nodes = 0
    states = {}
    for depth, alpha, recs in runs:
        for r in recs:
            if "mismatch" in r:
                m = r["mismatch"]
                owners = {"C11": ["C11"], "C12": ["C12"], "C03": ["C03", "C11"]}[m["prop"]]
                if pid in owners:
                    rep.violation("builder ops %s: %s" % (" ".join(m["path"]), m["what"]), {"kind": "builder_path", "path": m["path"], "alphabet": alpha})
                else:
                    for p in owners:
                        rep.note_foreign(p)
            elif "summary" in r:
                nodes += r["summary"]["nodes"]
            elif "state" in r:
                states[r["state"]] = r
    # every distinct builder state: serialised bytes through the parser specification (structural C03, last sentence of C11)
    # (longer than the 64-byte block of HMAC-SHA1/SHA256: a key that an implementation must hash, not clamp)
    key = {"kind": "short", "password": list(b"builder-key 0123456789abcdef0123456789abcdef0123456789abcdef0123456789abcdef0123456789abcdef0123456789abcdef")}
    cases = [{"bytes": st["bytes"], "creds": [key], "src": "builder state [%s]" % k, "types": st["types"], "lookup": [6, 8, 28, 36, 32520, 32802, 32808, 32810]}
             for k, st in sorted(states.items())]
    triples = run_pipeline(cases, wd, "builder", trace=False)
    for case, obs, exp, hang in triples:
        must, asis = compare(case, obs, exp, hang)
        extra = []
        if exp["parse"]["ok"] and obs and obs["parse"].get("ok"):
            got_types = [e["type"] for e in obs["acc"]["exposed"]] if isinstance(obs["acc"].get("exposed"), list) else None
            if got_types != case["types"]:
                extra.append((["C03", "C11"], "parsed back: exposed types %s, builder holds %s" % (got_types, case["types"])))
            ea = exp["acc"]
            if (ea["class"], ea["method"], ea["tid"]) != ("request", 1, [9, 8, 7, 6, 5, 4, 3, 2, 1, 0, 11, 12]):
                extra.append((["C03"], "header of the serialised message: %s %s %s" % (ea["class"], ea["method"], ea["tid"])))
            integ = obs["acc"].get("integrity", [{}])[0]
            if (8 in case["types"] or 28 in case["types"]) and not integ.get("ok"):
                extra.append((["C11", "C03", "C04"], "integrity added by the builder does not validate: %s" % json.dumps(integ)))
        elif not exp["parse"]["ok"]:
            extra.append((["C03", "C11"], "the specification's parser rejects what the builder serialised: %s" % json.dumps(exp["parse"])))
        for pids, what in must + extra:
            if pid in pids or (pid in ("C03", "C11") and ("C02" in pids or "C10" in pids)):
                rep.violation("%s: %s" % (case["src"], what), {"kind": "codec_case", "case": slim(case)})
            else:
                for p in pids:
                    rep.note_foreign(p)
    return mc, lres, nodes, states, cases


def builder_ops(pid, rep, tier, seed, wd):
    """random operation sequences on builders of every origin (Message::builder, builder_success/_error, bad_request,
    unknown_attributes, check_attribute_types) over all 19 built-in types: the adapter records results, the rules are
    StunBuilderOps.tla's (TLC emits, per operation, whether it is carried out and the attribute list after it)"""
    op = os.path.join(wd, "ops.ndjson")
    run_harness(["genops", str(500 if tier == "quick" else 8000), str(seed), op])
    recs = read_ndjson(op)
    r = tlc_judge("StunBuilderOps.tla", "StunBuilderOps.cfg", {"OPS": op}, "builder operation judge")
    exps = {}
    for ln in r["out"].splitlines():
        if ln.startswith('"EXPECT '):
            e = json.loads(json.loads(ln)[7:])
            exps[e["i"]] = e
    if len(exps) != len(recs):
        raise ToolError("builder operation judge saw %d of %d records" % (len(exps), len(recs)))
    nops = nref = 0
    finals = []
    for k, rec in enumerate(recs):
        e = exps[k + 1]
        rp = {"kind": "builder_ops", "record": {kk: rec[kk] for kk in ("id", "start", "ops")}, "seed": seed}
        what = None
        if not e["initial_ok"]:
            what = (["C11", "C03"], "%s: the specification's parser rejects what the fresh builder serialises" % rec["start"])
        else:
            types = e["initial_types"]
            for j, (o, x) in enumerate(zip(rec["ops"], e["steps"])):
                nops += 1
                nref += 0 if x["allowed"] else 1
                path = "%s, then %s" % (rec["start"], " ".join("%s(%s)" % (q["op"], q["type"]) for q in rec["ops"][:j + 1]))
                if o["err"] == "panic":
                    what = (["C11"], "%s: panic" % path)
                elif o["ok"] != x["allowed"]:
                    what = (["C11"], "%s: %s, the rules say it is %s (attributes before: %s)" % (
                        path, "carried out" if o["ok"] else "refused (%s)" % o["err"], "carried out" if x["allowed"] else "refused", types))
                elif not o["ok"] and o["changed"]:
                    what = (["C11"], "%s: a refused operation changed what the builder serialises" % path)
                elif o["op"] in ("into_owned", "clone") and o["changed"]:
                    what = (["C12", "C11"], "%s: the builder serialises differently afterwards" % path)
                else:
                    want = [t in x["types"] for t in rec["probe"]]
                    if o["has"] != want:
                        bad = [t for t, a, b in zip(rec["probe"], o["has"], want) if a != b]
                        what = (["C11"], "%s: has_attribute() disagrees with the attribute list %s for types %s" % (path, x["types"], bad))
                types = x["types"]
                if what:
                    break
            if not what:
                if not rec["write_into_same"] or rec["byte_len"] != len(rec["bytes"]):
                    what = (["C12", "C03"], "%s + %d operations: build(), byte_len() and write_into() disagree" % (rec["start"], len(rec["ops"])))
                else:
                    finals.append({"bytes": rec["bytes"], "creds": rec["creds"], "types": types, "src": "builder (%s) after %s" % (
                        rec["start"], " ".join("%s(%s)" % (q["op"], q["type"]) for q in rec["ops"])), "rp": rp})
        if what:
            if pid in what[0]:
                rep.violation("builder operations: " + what[1], rp)
            else:
                for p_ in what[0]:
                    rep.note_foreign(p_)
    # what the builders serialise in the end: accepted by the parser specification, exposes the builder's attributes, integrity
    # and fingerprint valid (C11's last sentence, C03)
    triples = run_pipeline([{k: v for k, v in c.items() if k != "rp"} for c in finals], wd, "ops", trace=False)
    for c, (case, obs, exp, hang) in zip(finals, triples):
        must, asis = compare(case, obs, exp, hang)
        extra = []
        if not exp["parse"]["ok"]:
            extra.append((["C03", "C11"], "the specification's parser rejects what the builder serialised: %s" % json.dumps(exp["parse"])))
        elif obs and obs["parse"].get("ok"):
            got_types = [x["type"] for x in obs["acc"]["exposed"]] if isinstance(obs["acc"].get("exposed"), list) else None
            if got_types != c["types"]:
                extra.append((["C03", "C11"], "parsed back: exposed types %s, the builder holds %s" % (got_types, c["types"])))
            integ = obs["acc"].get("integrity", [{}])[0]
            if (8 in c["types"] or 28 in c["types"]) and not integ.get("ok"):
                extra.append((["C11", "C03", "C04"], "integrity added by the builder does not validate: %s" % json.dumps(integ)))
        for pids, w in must + extra:
            # (the message is the builder's own and the credentials are the sealing ones: a disagreement with the oracle about
            # its integrity means that what the builder sealed is not "valid integrity" - C11's last sentence, C03)
            if pid in pids or (pid in ("C03", "C11") and ("C02" in pids or "C10" in pids or "C09" in pids or "C04" in pids)):
                rep.violation("%s: %s" % (c["src"], w), c["rp"])
            else:
                for p_ in pids:
                    rep.note_foreign(p_)
    os.remove(op)
    if nref < 50 or nops - nref < 50:
        raise ToolError("vacuity: random builder operations %d, refused %d" % (nops, nref))
    return {"sequences": len(recs), "operations": nops, "refused_by_the_rules": nref, "final_messages_parsed": len(finals)}


def c11(rep, tier, seed, wd):
    mc, lres, nodes, states, cases = builder_check("C11", rep, tier, seed, wd)
    rep.add_cov(random_operation_sequences=builder_ops("C11", rep, tier, seed, wd))
    rep.add_cov(states=mc["distinct"], transitions=mc["generated"], traces_validated_against_impl=nodes,
                builder_states_serialised_and_parsed=len(states), lts_edges=lres["generated"] - 1,
                samples=[{"ops": ["add_attribute(A)", "add_integrity(MI)", "add_raw_attribute(R)", "add_integrity(MI256)", "add_fingerprint(FP)", "add_fingerprint(FP)"]},
                         {"state": cases[-1]["src"], "bytes": cases[-1]["bytes"]}],
                rule="TLC checks Ordered, RefusalRule (refused exactly when the type is present / the message is sealed; refused operations leave the list unchanged) and Composition (the parser specification accepts Serialize(b) and exposes exactly b's attributes) on every reachable builder state (4 ordinary kinds x 8 sealing tails). EVERY operation sequence over the full alphabet (typed/raw add of 4 kinds, forbidden adds, SHA-1, SHA-256, fingerprint, into_owned, clone) to depth 4 (thorough 5) and over a reduced alphabet to depth 6 (thorough 7) is executed on the real MessageBuilder (prefix-shared clones); after every operation the result, has_attribute for every kind, has_any_attribute, byte_len and 'refused => bytes unchanged' are matched with the LTS; every distinct state's bytes are parsed and validated (integrity via the oracle, fingerprint via the TLA+ CRC)")
    rep.assumptions += ["error variants of refused operations are compared as-is (all equal on this tree)", "bounded: 4 ordinary attribute kinds"]


def c12(rep, tier, seed, wd):
    mc, lres, nodes, states, cases = builder_check("C12", rep, tier, seed, wd)
    acases, stats, per_type = attr_check("C12", rep, tier, seed, wd)
    # random builders (19 types, all sealings): build/write_into/into_owned/clone agree - adapter mode genpaths
    gp = os.path.join(wd, "genpaths.ndjson")
    run_harness(["genpaths", str(400 if tier == "quick" else 5000), str(seed), gp])
    recs = read_ndjson(gp)
    for r in recs:
        for p in r.get("problems", []):
            rep.violation("random builder %d: %s" % (r["id"], p), {"kind": "genpaths", "id": r["id"], "seed": seed})
    os.remove(gp)
    rep.add_cov(states=mc["distinct"], transitions=mc["generated"], traces_validated_against_impl=nodes + len(recs),
                builder_states_all_destination_sizes=len(states), attribute_values=len(acases), random_builders=len(recs),
                samples=[{"state": cases[-1]["src"], "len": len(cases[-1]["bytes"])}, acases[3]],
                rule="for every distinct builder state reached by any operation sequence (see C11): build(), write_into(exact), write_into(len+16 with sentinel bytes), every shorter destination 0..len-1 (TooSmall{len, n}, buffer untouched), clone(), into_owned(), into_owned().clone() give the same bytes, and all paths to the same abstract state (typed or raw attributes, owned or borrowed) serialise identically; per attribute: write_into vs to_raw().to_bytes() vs the specification's canonical wire form (padded length, declared length = value length, zero padding, sentinel beyond the length intact, one-byte-short destination refused untouched) for the C08 value sets incl. raw attributes of every length; random builders over all 19 types and sealings")


def c03(rep, tier, seed, wd):
    mc, lres, nodes, states, cases = builder_check("C03", rep, tier, seed, wd)
    rep.add_cov(random_operation_sequences=builder_ops("C03", rep, tier, seed, wd))
    n = 1200 if tier == "quick" else 15000
    gm = gen_messages(n, seed + 7, wd, maxattrs=7, nbig=8 if tier == "quick" else 60)
    gcs = [{"bytes": g["bytes"], "creds": g["creds"][:1], "src": "generated message %d" % g["id"], "gen": g["gen"]} for g in gm if not g["gen"]["by_ext"]]
    triples = run_pipeline([{k: v for k, v in c.items()} for c in gcs], wd, "c03", trace=False)
    ntyped = 0
    seals = {}
    for case, obs, exp, hang in triples:
        g = case["gen"]
        seals[g["seal"]] = seals.get(g["seal"], 0) + 1
        must, asis = compare(case, obs, exp, hang)
        extra = []
        b = case["bytes"]
        if len(b) % 4 != 0 or g["byte_len"] != len(b) or (b[2] * 256 + b[3]) != len(b) - 20:
            extra.append((["C03"], "length: %d bytes, byte_len() %s, header length field %d" % (len(b), g["byte_len"], b[2] * 256 + b[3])))
        if not exp["parse"]["ok"]:
            extra.append((["C03"], "the specification's parser rejects what the builder serialised: %s" % json.dumps(exp["parse"])))
        elif obs and obs["parse"].get("ok"):
            ea, oa = exp["acc"], obs["acc"]
            if (oa.get("class"), oa.get("method"), oa.get("tid")) != (g["class"], g["method"], g["tid"]):
                extra.append((["C03", "C19"], "header read back as %s/%s/%s, built with %s/%s/%s" % (oa.get("class"), oa.get("method"), oa.get("tid"), g["class"], g["method"], g["tid"])))
            want = [a["d"] for a in g["attrs"] if not a["as_raw"]] + [a["d"] for a in g["attrs"] if a["as_raw"]]
            want_types = [d["t"] for d in want] + ([8] if g["seal"] & 1 else []) + ([28] if g["seal"] & 2 else []) + ([32808] if g["seal"] & 4 else [])
            typed = oa.get("typed") if isinstance(oa.get("typed"), list) else []
            got_types = [t["type"] for t in typed]
            if got_types != want_types:
                extra.append((["C03"], "attribute order/types read back %s, built %s" % (got_types, want_types)))
            else:
                for d, t in zip(want, typed):
                    ntyped += 1
                    if d["t"] in BUILTIN:
                        if not t.get("ok"):
                            extra.append((["C03", "C08"], "attribute %d does not decode after the round trip: %s" % (d["t"], json.dumps(t)[:200])))
                            continue
                        for k in FIELD_KEYS:
                            if k in d and t.get(k) != d[k]:
                                extra.append((["C03", "C08"] + (["C13"] if d["t"] == 32 else []), "attribute %d field %s read back %s, built from %s" % (d["t"], k, str(t.get(k))[:100], str(d[k])[:100])))
                    else:
                        ex = [e for e in oa["exposed"] if e["type"] == d["t"]]
                        if not ex or ex[0]["value"] != d["raw"]:
                            extra.append((["C03"], "raw attribute %d value differs after the round trip" % d["t"]))
            integ = (oa.get("integrity") or [{}])[0]
            if g["seal"] & 3 and not (integ.get("ok") and integ.get("alg") == ("sha256" if g["seal"] & 2 else "sha1")):
                extra.append((["C03", "C04"], "integrity added by the builder: %s" % json.dumps(integ)))
        for pids, what in must + extra:
            if "C03" in pids or "C02" in pids or "C10" in pids:
                rep.violation("%s: %s" % (case["src"], what), {"kind": "codec_case", "case": slim(case)})
            else:
                for p in pids:
                    rep.note_foreign(p)
    if len(seals) < 8:
        raise ToolError("vacuity in C03: sealing combinations seen %s" % seals)
    rep.add_cov(states=mc["distinct"], transitions=mc["generated"], traces_validated_against_impl=nodes + len(gcs),
                builder_states_serialised_and_parsed=len(states), generated_messages=len(gcs), typed_values_compared=ntyped,
                sealing_combinations={str(k): v for k, v in sorted(seals.items())},
                samples=[{"gen": gcs[0]["gen"], "bytes_len": len(gcs[0]["bytes"])}],
                rule="structural part: TLC checks Composition (parser spec accepts Serialize(b), exposes exactly b's attributes, length % 4 = 0, header length = len - 20) on every reachable builder state, and every distinct state reached on the real builder by all operation sequences (see C11) is parsed back; value part: random builders over 4 classes x boundary/random methods 0..0xfff x boundary/random 96-bit ids x up to 7 attributes drawn from all 19 typed kinds (boundary lengths 0, max, max-1, random; multi-byte UTF-8) and raw unknown types of length 0..763, typed or raw insertion, all 8 sealing combinations; parsed back by the implementation: class/method/id, attribute order, every typed field (and raw value), integrity algorithm and validity; the same bytes must be accepted by the TLA+ parser specification")


CHECKS.update({"C11": ("model_checking", c11), "C12": ("model_checking", c12), "C03": ("model_checking", c03)})


# --------------------------------------------------------------------------- C01
def boundary_cases(rng):
    out = []
    hdr = lambda n, cls=0x0001: [cls >> 8, cls & 255, n >> 8, n & 255, 0x21, 0x12, 0xa4, 0x42] + [rng.randrange(256) for _ in range(12)]
    # tiny buffers
    for n in list(range(0, 25)):
        out.append({"bytes": [0] * n, "src": "%d zero bytes" % n})
        out.append({"bytes": [255] * n, "src": "%d 0xff bytes" % n})
        out.append({"bytes": (hdr(0) + [0, 6, 0, 0])[:n], "src": "%d-byte prefix of a small message" % n})
    # integrity attributes at offsets around the 16-bit boundary (validate_integrity arithmetic)
    for off in (65508, 65512, 65516, 65528):
        vlen = off - 24
        for ity, ilen in ((8, 20), (28, 32), (28, 16)):
            total = off + 4 + ilen
            if total - 20 > 65535:
                continue
            body = [0x7f, 0x02, vlen >> 8, vlen & 255] + [7] * vlen + [0, ity, 0, ilen] + [rng.randrange(256) for _ in range(ilen)]
            out.append({"bytes": hdr(total - 20) + body, "src": "integrity attribute (type %d) at offset %d" % (ity, off)})
    # attribute lengths 65531..65535 declared in buffers of various sizes
    for alen in (65531, 65532, 65533, 65534, 65535):
        for have in (0, 4, 100):
            body = [0x80, 0x22, alen >> 8, alen & 255] + [65] * have
            out.append({"bytes": hdr(len(body)) + body, "src": "attribute length %d declared, %d bytes present" % (alen, have)})
        body = [0x80, 0x22, alen >> 8, alen & 255] + [65] * alen + [0] * ((4 - alen % 4) % 4)
        if len(body) <= 65535:
            out.append({"bytes": hdr(len(body)) + body, "src": "attribute of %d bytes, complete" % alen})
    # declared lengths at the top of the range / buffers beyond 64 KiB
    for total in (65532, 65536, 65552, 65556, 70000):
        # a handful of large attributes filling the buffer (thousands of tiny ones would only stress the judge)
        body = []
        left = total - 20
        while left > 0:
            v = min(left - 4, 16380)
            body += [0xff, 0x03, v >> 8, v & 255] + [3] * v
            left -= 4 + v
        out.append({"bytes": hdr(min(total - 20, 65535)) + body, "src": "%d bytes, large attributes" % total})
    out.append({"bytes": hdr(2000) + [0] * 2000, "src": "500 empty attributes of type 0"})
    # malformed values of every built-in type inside otherwise well-formed messages, every class (formatting, policing)
    for cls in (0x0001, 0x0011, 0x0101, 0x0111):
        body = []
        for ty in BUILTIN:
            if ty in (8, 28, 32808):
                continue
            v = [0xff, 0xfe, 0xfd][: rng.choice([1, 2, 3])]
            body += [ty >> 8, ty & 255, 0, len(v)] + v + [0] * ((4 - len(v) % 4) % 4)
        out.append({"bytes": hdr(len(body), cls) + body, "src": "malformed values of every built-in type, class bits %#06x" % cls})
        body2 = [0, 8, 0, 3, 1, 2, 3, 0, 0x80, 0x28, 0, 0]
        out.append({"bytes": hdr(len(body2), cls) + body2, "src": "integrity/fingerprint of illegal lengths, class bits %#06x" % cls})
    return out


def c01(rep, tier, seed, wd):
    rng = random.Random(seed)
    cfgs = ["bodies2", "tails4", "tailsfp", "tailsodd", "headers"] if tier == "quick" else ["bodies", "tails5", "tailsfp", "tailsodd", "headers"]
    cases, st, tr = enum_cases(cfgs, wd)
    for c in cases:
        c["types"] = [LETTER_TYPES[x - 1] for x in c["as"]]
    gm = gen_messages(300 if tier == "quick" else 5000, seed + 8, wd, maxattrs=5)
    gcs = [{"bytes": g["bytes"], "creds": g["creds"], "src": "generated message %d" % g["id"], "types": [a["d"]["t"] for a in g["gen"]["attrs"]]} for g in gm]
    muts = []
    for g in gm:
        for _ in range(3 if tier == "quick" else 10):
            m = mutate(g["bytes"], rng)
            if rng.random() < 0.4:
                m = mutate(m, rng)
            muts.append({"bytes": m, "creds": g["creds"][:2], "src": "mutant of generated message %d" % g["id"], "types": [a["d"]["t"] for a in g["gen"]["attrs"]]})
    bnd = boundary_cases(rng) + huge_messages(rng, 5)
    for c in bnd:
        c["types"] = [6, 8, 32802]
    short_cred = {"kind": "short", "password": list("pw".encode())}
    long_cred = {"kind": "long", "user": list("us:er".encode()), "realm": list("ré".encode()), "password": []}
    allc = cases + gcs + muts + bnd
    for c in allc:
        c.setdefault("creds", [short_cred, long_cred])
        c["police"] = police_sets(c["types"], rng, 2)
        c["lookup"] = ALPHA_TYPES
    triples = run_pipeline(allc, wd, "c01", trace=True, chunk=1500)
    npanic = 0
    accepted = 0
    for case, obs, exp, hang in triples:
        if exp["parse"]["ok"]:
            accepted += 1
        if hang is not None or obs is None:
            rep.violation("%s: no answer (hang or crash of the adapter) on a %d-byte buffer" % (case["src"], len(case["bytes"])), {"kind": "codec_case", "case": slim(case)})
            continue
        cls = exp.get("hdr", {}).get("class", "?")
        pan = all_panics(obs)
        for path, msg in pan:
            npanic += 1
            rep.violation("%s: panic at %s: %s [class=%s]" % (case["src"], path, msg, cls), {"kind": "codec_case", "case": slim(case)})
        if obs.get("traced_same") is False and not pan:
            rep.violation("%s: answers differ with a TRACE-level tracing subscriber installed" % case["src"], {"kind": "codec_case", "case": slim(case)})
        must, asis = compare(case, obs, exp, hang)
        for pids, what in must:
            if "C01" not in pids:
                for p in pids:
                    rep.note_foreign(p)
    # typed decoders and raw attribute paths on the C08 value sets (every length 0..800 etc.)
    acases, stats, per_type = attr_check("C01", rep, tier, seed, wd)
    # values longer than a 16-bit length can say (RawAttribute::new holds them): every length that is one of the decoders'
    # expected sizes modulo 2^16, through all 19 decoders (totality only - no encoding of such a value exists)
    over = []
    for ty in BUILTIN + [0x7f00]:
        for n in sorted(set([65535, 65536, 70000, 131072 + 4] + [65536 + k for k in (1, 2, 3, 4, 5, 8, 12, 16, 20, 24, 28, 32, 36, 64, 513, 763)])):
            pat = [0x61] if ty in TEXT_TYPES else ([0, 1, 0, 0] if ty in (29, 32770) else [0, 1, 4, 20] if ty in (32, 32803, 9) else [7])
            over.append({"type": ty, "value": pat, "len": n, "tid": TID0, "src": "value of %d bytes" % n})
    cp, op = os.path.join(wd, "over.cases"), os.path.join(wd, "over.obs")
    with open(cp, "w") as f:
        for c in over:
            f.write(json.dumps(c) + "\n")
    run_harness(["attrs", cp, op])
    oobs = read_ndjson(op)
    if len(oobs) != len(over):
        raise ToolError("adapter answered %d of %d oversize attribute cases" % (len(oobs), len(over)))
    for c, o in zip(over, oobs):
        for path, msg in all_panics(o):
            npanic += 1
            rep.violation("attribute type %d, %s: panic at %s: %s" % (c["type"], c["src"], path, msg), {"kind": "attr_oversize", "case": c})
    rep.add_cov(oversize_attribute_values=len(over))
    rep.add_cov(evaluations=len(allc) + len(acases), distinct_nontrivial=distinct(allc) + len({(c["type"], bytes(c["value"])) for c in acases}),
                accepted_messages_inspected=accepted, boundary_cases=len(bnd), enumerated=len(cases), generated=len(gcs), mutants=len(muts),
                attribute_values=len(acases), panics_seen=npanic, max_buffer_len=max(len(c["bytes"]) for c in allc),
                samples=[{"src": bnd[80]["src"], "len": len(bnd[80]["bytes"])}, {"src": muts[0]["src"], "bytes": muts[0]["bytes"][:60]}],
                rule="every buffer produced by the other codec checks' generators (TLC-enumerated skeletons, builder-generated messages, byte mutants) plus a boundary set derived from the guards of the specification (lengths 0..24; integrity attributes at offsets 65508..65528; attribute lengths 65531..65535; totals 65532..70000; malformed values of every built-in type in every message class) is pushed through Message/MessageHeader/MessageType/RawAttribute::from_bytes and, when accepted, through iteration, lookups, typed extraction by all 19 decoders, validate_integrity with short- and long-term credentials, check_attribute_types with empty/full/random sets, Display and Debug - once without and once with a TRACE-level tracing subscriber - under catch_unwind and a 30 s watchdog, built with overflow checks; the 19 typed decoders additionally on every value length 0..800")
    rep.assumptions += ["exploration: a panic on an input that no generator produced is not found; the specification contributes the boundary analysis and a verdict for every input (TLC evaluates every case without error)",
                        "release-mode wrap-around is not observed (overflow checks are on)"]


def all_panics(v, path=""):
    out = []
    if isinstance(v, dict):
        if "panic" in v:
            out.append((path, v["panic"]))
        for k, x in v.items():
            out += all_panics(x, path + "/" + str(k))
    elif isinstance(v, list):
        for i, x in enumerate(v):
            out += all_panics(x, path + "/" + str(i))
    return out


CHECKS.update({"C01": ("exploration", c01)})
