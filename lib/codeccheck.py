"""Checks for the codec properties (stun-types).  Pattern: the adapter records what the implementation
answers; TLC evaluates the specification (spec/Stun*.tla) on the same inputs and either judges the record
itself (MISMATCH lines) or emits the expected observations (EXPECT lines) that are compared field by field."""
import json
import os
import random
import re
import time

from common import *  # noqa

JOPTS = "-Xss1g -Xmx8g"


def tlc_judge(module, cfg, env, what, timeout=3000, workers=1):
    res = run_tlc(module, cfg, workers=workers, timeout=timeout, env_extra=env, java_opts=JOPTS)
    out = res["out"]
    if "Model checking completed" not in out or re.search(r"^Error:", out, flags=re.M):
        raise ToolError("TLC judge '%s' did not run cleanly:\n%s" % (what, "\n".join(out.splitlines()[-30:])))
    return res


def read_ndjson(path):
    with open(path) as f:
        return [json.loads(ln) for ln in f if ln.strip()]


# --------------------------------------------------------------------------- C19
def c19(rep, tier, seed, wd):
    tab = os.path.join(wd, "table.ndjson")
    run_harness(["table", tab, str(seed)])
    recs = read_ndjson(tab)
    res = tlc_judge("MCHeader.tla", "MCHeader.cfg", {"TABLE": tab}, "MCHeader")
    out = res["out"]
    if '"TYPE-ALGEBRA-OK"' not in out:
        raise ToolError("MCHeader: in-spec theorems were not evaluated")
    m = re.search(r'"JUDGED (\d+)"', out)
    if not m or int(m.group(1)) != len(recs):
        raise ToolError("MCHeader judged %s of %d records" % (m.group(1) if m else None, len(recs)))
    for mm in re.finditer(r'"MISMATCH (\d+)"', out):
        r = recs[int(mm.group(1)) - 1]
        rep.violation("type/transaction-id table: implementation says %s" % json.dumps(r)[:300], {"kind": "table_record", "record": r})
    kinds = {}
    for r in recs:
        kinds[r["k"]] = kinds.get(r["k"], 0) + 1
    rep.add_cov(evaluations=len(recs), distinct_nontrivial=kinds.get("dec", 0) + kinds.get("enc", 0) + kinds.get("tid", 0),
                exhaustive=True, records_by_kind=kinds,
                rule="every 16-bit type field value decoded (65536), every (class, method) pair encoded (4x4096), transaction ids from boundary patterns (single bits, all-ones, cookie-equal top word) and random 128-bit values through From<u128>, builder, parser and header decoder; 10000 generated ids. TLC evaluates TypeField/ClassOf/MethodOf/TidFromWide (StunHeader.tla) on each record; the algebra itself (round trip, onto, bit diagram) is checked exhaustively as ASSUMEs",
                samples=[recs[1], recs[65536 + 5], recs[65536 + 16384 + 3]])
    rep.assumptions += ["transaction ids are sampled (boundary patterns + random), the type field is exhaustive"]
    os.remove(tab)


CHECKS = {"C19": ("model_checking", c19)}


def replay(pid, rp):
    print(json.dumps(rp, indent=1)[:4000])


def run(pid, tier, seed):
    if pid not in CHECKS:
        raise ToolError("no check for " + pid)
    level, fn = CHECKS[pid]
    rep = Report(pid, tier, seed, level)
    wd = workdir("codec_%s" % pid)
    build_harness()
    fn(rep, tier, seed, wd)
    shutil.rmtree(wd, ignore_errors=True)
    return rep.finish()
