"""Binding of spec/StunAgent.tla to the real StunAgent.

B1: TLC dumps the complete labelled transition system (LTS) of a bounded model; input scripts are
    computed from it (tour, all words to depth D, state cover x words, random walks), executed on the
    real agent by the Rust adapter, and the observed run is followed through the LTS.  The
    implementation resolves Poll's nondeterminism; Python only matches labels and numbers.
B2: random histories with real millisecond values are recorded and validated by TLC
    (StunAgentTrace.tla).
"""
import json
import os
import random
import subprocess
from collections import deque

from common import *  # noqa


# --------------------------------------------------------------------------- model table
# install = configure_timeout arguments (in model units) that make the code's per-request schedule equal
# to the model's DefSched/DefLast right after send; None = the model uses the code's real default.
MODELS = {
    "lts_life": dict(cfg="MCAgent_lts_life.cfg", transport="udp", install=[1, 1, 1], scales=[1, 500, 60000, 1 << 20]),
    "lts_life_tcp": dict(cfg="MCAgent_lts_life_tcp.cfg", transport="tcp", install=[1, 0, 2], scales=[1, 500, 60000]),
    "lts_time": dict(cfg="MCAgent_lts_time.cfg", transport="udp", install=[1, 2, 2], scales=[1, 500, 60000, 1 << 20]),
    "lts_time_tcp": dict(cfg="MCAgent_lts_time_tcp.cfg", transport="tcp", install=[1, 0, 3], scales=[1, 500, 60000]),
    "lts_auth": dict(cfg="MCAgent_lts_auth.cfg", transport="udp", install=[1, 1, 1], scales=[1, 500]),
    "lts_default": dict(cfg="MCAgent_lts_default.cfg", transport="udp", install=None, scales=[500]),
    "lts_default_tcp": dict(cfg="MCAgent_lts_default_tcp.cfg", transport="tcp", install=None, scales=[500]),
}


def canon(x):
    return json.dumps(x, sort_keys=True, separators=(",", ":"), default=str)


def input_key(act, transport=None):
    n = act["name"]
    if n == "tick":
        return ("tick", act["d"])
    if n == "send":
        if act["cls"] == "request":
            return ("send", "request", act["tid"], act["to"], bool(act["sealed"]), act["pay"])
        return ("send", act["cls"], act["to"], act["pay"])
    if n == "recv":
        if act["cls"] == "response":
            return ("recv", "response", act["tid"], act["from"], act["integ"])
        return ("recv", act["cls"], act["from"])
    if n == "poll":
        return ("poll",)
    if n in ("cancel", "cancel_rt"):
        return (n, act["tid"])
    if n == "configure":
        return ("configure", act["tid"], act["rto"], act["n"], act["last"])
    if n in ("set_remote", "set_local"):
        return (n, act["key"])
    raise ToolError("unknown act " + canon(act))


def key_to_step(k):
    n = k[0]
    if n == "tick":
        return {"a": "tick", "d": k[1]}
    if n == "send":
        if k[1] == "request":
            return {"a": "send", "cls": "request", "tid": k[2], "to": k[3], "sealed": k[4], "pay": k[5]}
        return {"a": "send", "cls": k[1], "to": k[2], "pay": k[3]}
    if n == "recv":
        if k[1] == "response":
            return {"a": "recv", "cls": "response", "tid": k[2], "from": k[3], "integ": k[4]}
        return {"a": "recv", "cls": k[1], "from": k[2]}
    if n == "poll":
        return {"a": "poll"}
    if n in ("cancel", "cancel_rt"):
        return {"a": n, "tid": k[1]}
    if n == "configure":
        return {"a": "configure", "tid": k[1], "rto": k[2], "n": k[3], "last": k[4]}
    return {"a": n, "key": k[1]}


def step_to_key(ev):
    a = ev["a"]
    if a == "tick":
        return ("tick", ev["d"])
    if a == "send":
        if ev["cls"] == "request":
            return ("send", "request", ev["tid"], ev["to"], ev["sealed"] not in (False, "none"), ev["pay"])
        return ("send", ev["cls"], ev["to"], ev["pay"])
    if a == "recv":
        if ev["cls"] == "response":
            return ("recv", "response", ev["tid"], ev["from"], ev["integ"])
        return ("recv", ev["cls"], ev["from"])
    if a == "poll":
        return ("poll",)
    if a in ("cancel", "cancel_rt"):
        return (a, ev["tid"])
    if a == "configure":
        return ("configure", ev["tid"], ev["rto"], ev["n"], ev["last"])
    return (a, ev["key"])


class LTS:
    def __init__(self):
        self.ids = {}       # canon(state) -> id
        self.states = []    # id -> state dict
        self.trans = []     # id -> {input_key: [(reply, dst)]}
        self.nedges = 0
        self.labels = {}    # (name, reply kind) -> count
        self.init = None

    def sid(self, st):
        c = canon(st)
        i = self.ids.get(c)
        if i is None:
            i = len(self.states)
            self.ids[c] = i
            self.states.append(st)
            self.trans.append({})
        return i

    @staticmethod
    def load(path):
        l = LTS()
        with open(path) as f:
            for ln in f:
                if not ln.startswith('"EDGE '):
                    continue
                e = json.loads(json.loads(ln)[5:])
                s, d = l.sid(e["src"]), l.sid(e["dst"])
                if l.init is None:
                    l.init = s
                act = e["act"]
                k = input_key(act)
                r = act.get("reply")
                l.trans[s].setdefault(k, []).append((r, d))
                l.nedges += 1
                lab = (act["name"] + ("/" + act["cls"] if "cls" in act else ""), r["k"] if r else "-")
                l.labels[lab] = l.labels.get(lab, 0) + 1
        if l.init is None:
            raise ToolError("no EDGE lines in " + path)
        return l

    def access_paths(self):
        """shortest input words from init to every state (planning picks the first listed outcome)"""
        par = {self.init: None}
        dq = deque([self.init])
        while dq:
            s = dq.popleft()
            for k, outs in self.trans[s].items():
                for (_r, d) in outs:
                    if d not in par:
                        par[d] = (s, k)
                        dq.append(d)
        return par

    def path_to(self, par, s):
        w = []
        while par[s] is not None:
            s, k = par[s]
            w.append(k)
        w.reverse()
        return w


def dump_lts(model, wd):
    m = MODELS[model]
    out = os.path.join(wd, model + ".lts")
    res = run_tlc("MCAgent.tla", m["cfg"], workers=1, timeout=3000, out_path=out)
    tlc_ok(res, "LTS dump " + model)
    l = LTS.load(out)
    os.remove(out)
    if l.nedges != res["generated"] - 1:
        raise ToolError("LTS dump incomplete: %d edges vs %d generated" % (l.nedges, res["generated"]))
    return l, res


# --------------------------------------------------------------------------- script generation
def gen_tour(l, maxlen=40, rng=None):
    """scripts (input words from init) that together drive every (state, input) pair of the LTS"""
    par = l.access_paths()
    uncovered = [set(l.trans[s].keys()) for s in range(len(l.states))]
    order = sorted(range(len(l.states)), key=lambda s: -len(l.path_to(par, s)) if s in par else 0)
    scripts = []
    for s0 in order:
        while uncovered[s0]:
            word = l.path_to(par, s0)
            s = s0
            while len(word) < maxlen:
                if uncovered[s]:
                    k = uncovered[s].pop()
                else:
                    # step to a neighbour that still has uncovered inputs, if any
                    k = None
                    for kk, outs in l.trans[s].items():
                        if uncovered[outs[0][1]]:
                            k = kk
                            break
                    if k is None:
                        break
                word.append(k)
                s = l.trans[s][k][0][1]
            scripts.append(word)
    return scripts


def gen_all_words(l, depth, cap=None):
    """every input word of length <= depth that the LTS admits from init (all outcomes explored)"""
    res = []
    def rec(states, word):
        if word:
            res.append(list(word))
        if len(word) == depth or (cap and len(res) >= cap):
            return
        keys = set()
        for s in states:
            keys.update(l.trans[s].keys())
        for k in sorted(keys, key=canon):
            nxt = set()
            for s in states:
                for (_r, d) in l.trans[s].get(k, []):
                    nxt.add(d)
            word.append(k)
            rec(nxt, word)
            word.pop()
    rec({l.init}, [])
    # only maximal words matter (prefixes are executed on the way)
    mx = [w for w in res if len(w) == depth]
    return mx if mx else res


def gen_cover_words(l, k, rng, per_state=None):
    """state cover x input words of length k (optionally sampled per state)"""
    par = l.access_paths()
    scripts = []
    for s in range(len(l.states)):
        if s not in par:
            continue
        acc = l.path_to(par, s)
        words = [[]]
        frontier = [({s}, [])]
        for _ in range(k):
            nf = []
            for (sts, w) in frontier:
                keys = set()
                for x in sts:
                    keys.update(l.trans[x].keys())
                for key in keys:
                    nxt = {d for x in sts for (_r, d) in l.trans[x].get(key, [])}
                    nf.append((nxt, w + [key]))
            frontier = nf
            if per_state and len(frontier) > per_state * 4:
                frontier = rng.sample(frontier, per_state * 4)
        ws = [w for (_s, w) in frontier]
        if per_state and len(ws) > per_state:
            ws = rng.sample(ws, per_state)
        for w in ws:
            scripts.append(acc + w)
    return scripts


def gen_random_walks(l, n, depth, rng):
    scripts = []
    for _ in range(n):
        s = l.init
        w = []
        for _ in range(depth):
            keys = list(l.trans[s].keys())
            if not keys:
                break
            # bias away from ticks so that walks do not exhaust the model's clock at once
            k = rng.choice(keys)
            if k[0] == "tick" and rng.random() < 0.5:
                k = rng.choice(keys)
            w.append(k)
            s = rng.choice(l.trans[s][k])[1]
        scripts.append(w)
    return scripts


# --------------------------------------------------------------------------- following
class Mismatch:
    def __init__(self, props, what, detail):
        self.props, self.what, self.detail = props, what, detail


def abs_reply(ev, scale):
    """observed return value in the vocabulary of the spec's act.reply (None for calls without reply)"""
    r = ev["ret"]
    a = ev["a"]
    if a in ("tick", "set_remote", "set_local"):
        return None
    if r["k"] == "transmit":
        o = {"k": "transmit", "pay": r["pay"], "to": r["to"]}
        if a == "poll":
            o["tid"] = r["tid"]
        return o
    if r["k"] == "wait":
        return {"k": "wait", "until_ms": r["until_ms"]}
    if r["k"] in ("timeout", "cancelled"):
        return {"k": r["k"], "tid": r["tid"]}
    if r["k"] in ("response", "incoming", "drop", "ok", "none"):
        return {"k": r["k"]}
    if r["k"] == "err":
        return {"k": "err", "e": r["e"]}
    return {"k": r["k"], "raw": r}


def reply_matches(spec, obs, scale):
    if spec is None or obs is None:
        return spec is None and obs is None
    if spec["k"] != obs["k"]:
        return False
    if spec["k"] == "wait":
        if spec["idle"]:
            return True     # AS-IS: what poll says when nothing is outstanding is not fixed by a property
        return obs["until_ms"] == spec["until"] * scale
    return all(obs.get(f) == v or obs.get(f) is ANY for f, v in spec.items())


class _Any:
    def __repr__(self):
        return "<any>"


ANY = _Any()


def obs_of_state(st):
    return {"out": sorted([[o["tid"], o["to"]] for o in st["out"]]), "val": sorted(st["val"]),
            "rcred": st["rcred"], "lcred": st["lcred"]}


def norm_obs(o):
    return {"out": sorted(o["out"]), "val": sorted(o["val"]), "rcred": o["rcred"], "lcred": o["lcred"]}


def classify_reply(l, s, key, ev, spec_replies, obs):
    """which property owns a wrong reply (DESIGN.md 4.6)"""
    st = l.states[s]
    a = key[0]
    if obs is not None and obs["k"] == "panic":
        return ["C05", "C06", "C07", "C15", "C18", "C20"]
    if a == "send":
        ks = {r["k"] for r in spec_replies}
        if obs["k"] in ks and obs["k"] == "transmit":
            return ["C18"]           # right kind, wrong content
        return ["C05"] if key[1] == "request" else ["C18"]
    if a == "recv":
        if key[1] == "response":
            o = [x for x in st["out"] if x["tid"] == key[2]]
            if not o:
                return ["C05"]
            return ["C07"] if o[0]["sealed"] else ["C05", "C07"]
        return ["C15", "C05"]
    if a == "poll":
        ks = {r["k"] for r in spec_replies}
        props = ["C06"]
        if obs["k"] == "transmit" and any(r["k"] == "transmit" and r.get("tid") == obs.get("tid") for r in spec_replies):
            return ["C18"]           # a due retransmission with altered content/addresses
        if obs["k"] in ("timeout", "cancelled", "transmit") or ks & {"timeout", "cancelled"}:
            props.append("C05")
        return props
    if a in ("cancel", "cancel_rt", "configure"):
        return ["C05"]
    return ["C05"]


def c15_local(events):
    """C15 needs no model state: after every call the validated set is the one before plus the sender of a message that
    was handed up (request, indication, delivered response), and nothing else.  Checked over the whole run, also past a
    point where the run left the model for another reason."""
    prev = set()
    for i, ev in enumerate(events):
        if "obs" not in ev or "a" not in ev:
            return None
        cur = set(ev["obs"]["val"])
        want = set(prev)
        ret = ev.get("ret", {})
        if ev["a"] in ("recv", "client_recv") and ret.get("k") in ("incoming", "response"):
            want.add(ev.get("from", "srv"))
        if cur != want:
            return Mismatch(["C15"], "step %d %s: validated peers went from %s to %s (answer %s)" % (
                i, ev["a"], sorted(prev), sorted(cur), canon(ret)), None)
        if "obs2" in ev and set(ev["obs2"]["val"]) != cur:
            return Mismatch(["C15"], "step %d: a poll changed the validated peers" % i, None)
        prev = cur
    return None


def follow(l, scale, transport, events, probe_after_drop_owner=True):
    """follow one observed run through the LTS.  Returns (steps_followed, nondet, Mismatch|None, truncated)"""
    r = _follow(l, scale, transport, events)
    if r[2] is not None and "C07" not in r[2].props and r[0] < len(events):
        # C07 speaks about requests that CARRIED an integrity attribute.  If the run stopped because a request went out
        # with other bytes than were handed to send() and those bytes differ in exactly that respect (an agent that signs
        # or strips on its own), follow the run once more with the request taken as what was on the wire and without
        # looking at payload contents: what C07 demands of the responses that follow is then still decided.
        ev = events[r[0]]
        ret = ev.get("ret", {})
        if ev.get("a") == "send" and ev.get("cls") == "request" and ret.get("k") == "transmit" and ret.get("pay") == "ALTERED" \
                and ret.get("wire_sealed") in (True, False) and ret["wire_sealed"] != (ev["sealed"] not in (False, "none")):
            wired = []
            for e in events:
                e2 = dict(e)
                rr = e2.get("ret", {})
                if e2.get("a") == "send" and e2.get("cls") == "request" and rr.get("wire_sealed") in (True, False):
                    e2["sealed"] = rr["wire_sealed"]
                if rr.get("pay") == "ALTERED":
                    e2["ret"] = dict(rr, pay=e2.get("pay") if e2.get("a") == "send" else ANY)
                wired.append(e2)
            r2 = _follow(l, scale, transport, wired)
            if r2[2] is not None and "C07" in r2[2].props:
                r[2].props.append("C07")
                r[2].what += " | taking the request as transmitted (integrity attribute %s): %s" % (
                    "present" if ret["wire_sealed"] else "absent", r2[2].what)
    if r[2] is None or "C15" not in r[2].props:
        loc = c15_local(events)
        if loc is not None:
            if r[2] is None:
                return (r[0], r[1], loc, r[3])
            r[2].props.append("C15")
            r[2].what += " | also: " + loc.what
    return r


def _follow(l, scale, transport, events):
    s = l.init
    nondet = False
    for i, ev in enumerate(events):
        if "a" not in ev:
            return i, nondet, Mismatch(["C05", "C06", "C07", "C15", "C18", "C20"], "harness event without call: %s" % canon(ev), ev), False
        key = step_to_key(ev)
        edges = l.trans[s].get(key)
        if edges is None:
            return i, nondet, None, True       # the script left the bounded model: not a verdict
        obs = abs_reply(ev, scale)
        if key[0] == "poll" and len(edges) > 1:
            nondet = True
        cand = [(r, d) for (r, d) in edges if reply_matches(r, obs, scale)]
        if not cand:
            props = classify_reply(l, s, key, ev, [r for r, _ in edges], obs)
            return i, nondet, Mismatch(props, "step %d %s: implementation answered %s, specification allows %s" % (
                i, canon(key), canon(obs), canon([r for r, _ in edges])), None), False
        r, d = cand[0]
        # side conditions on transmissions (C18): source address, transport, id
        ret = ev["ret"]
        if ret.get("k") == "transmit":
            bad = []
            if ret.get("from") != "local":
                bad.append("from=%s" % ret.get("from"))
            if ret.get("tr") != transport:
                bad.append("transport=%s" % ret.get("tr"))
            if key[0] == "send" and key[1] == "request" and ret.get("tid") != key[2]:
                bad.append("tid=%s" % ret.get("tid"))
            if bad:
                return i, nondet, Mismatch(["C18"], "step %d %s: transmission with %s" % (i, canon(key), ",".join(bad)), None), False
        if ret.get("k") in ("response", "incoming") and ret.get("same") is not True:
            return i, nondet, Mismatch(["C05"], "step %d: handed-up message is not the one received" % i, None), False
        # API-visible state after the call
        exp = obs_of_state(l.states[d])
        got = norm_obs(ev["obs"])
        if exp != got:
            props = []
            eo, go = exp["out"], got["out"]
            if [x[0] for x in eo] != [x[0] for x in go]:
                props.append("C05")
                if key[0] == "recv" and key[1] == "response":
                    o = [x for x in l.states[s]["out"] if x["tid"] == key[2]]
                    if o and o[0]["sealed"]:
                        props.append("C07")
                if key[0] == "poll":
                    props.append("C06")
            elif eo != go:
                props.append("C18")
            if exp["val"] != got["val"]:
                props.append("C15")
            if exp["rcred"] != got["rcred"] or exp["lcred"] != got["lcred"]:
                props.append("C07")
            return i, nondet, Mismatch(props, "step %d %s: visible state %s, specification %s" % (
                i, canon(key), canon(got), canon(exp)), None), False
        # early-poll probe: timer position of the new state
        if "probe" in ev:
            pr = l.states[d]["probe"]
            p = ev["probe"]
            ok = True
            if pr == "idle":
                ok = p["k"] == "wait"
            elif pr == "skip":
                ok = True     # harness and spec disagree on who is cancelled only if the code is off; visible elsewhere
                if p["k"] != "wait":
                    ok = False
            else:
                ok = p["k"] == "wait" and p["until_ms"] == int(pr) * scale
            if ok and norm_obs(ev["obs2"]) != got:
                ok = False
            if not ok:
                props = ["C06"]
                if key[0] == "recv" and key[1] == "response":
                    props.append("C07")
                if p["k"] in ("timeout", "cancelled", "transmit"):
                    props.append("C05")
                if key[0] == "send":
                    props.append("C20") if False else None
                return i, nondet, Mismatch(props, "step %d %s: a poll before every transmission answered %s, specification: wait until %s (x%d ms)" % (
                    i, canon(key), canon(p), pr, scale), None), False
        s = d
    return len(events), nondet, None, False


def make_script(sid, word, model, scale, seed, **kw):
    m = MODELS[model]
    sc = {"id": sid, "seed": seed, "transport": m["transport"], "scale": scale, "probe": True,
          "steps": [key_to_step(k) for k in word], "ntids": 4}
    if m["install"] is not None:
        sc["install"] = m["install"]
    sc.update(kw)
    return sc


def run_scripts(scripts, wd, tag, binary=None, hook_trace=None):
    """execute scripts with the adapter (in parallel chunks); returns {id: events}.  With hook_trace (a list) and a
    hooked adapter binary, every adapter process also writes the crate's own hook trace; the files are appended to it."""
    n = len(scripts)
    if n == 0:
        return {}
    nproc = min(4, max(1, n // 200))
    chunks = [scripts[i::nproc] for i in range(nproc)]
    procs = []
    for ci, ch in enumerate(chunks):
        ip = os.path.join(wd, "%s.%d.in" % (tag, ci))
        op = os.path.join(wd, "%s.%d.out" % (tag, ci))
        with open(ip, "w") as f:
            for sc in ch:
                f.write(json.dumps(sc) + "\n")
        env = dict(os.environ)
        if hook_trace is not None:
            hp = os.path.join(wd, "%s.%d.hook" % (tag, ci))
            if os.path.exists(hp):
                os.remove(hp)
            env["STUN_VERIF_TRACE"] = hp
            hook_trace.append(hp)
        procs.append((subprocess.Popen([binary or STUNH, "agent", ip, op], stderr=subprocess.PIPE, text=True, env=env), ip, op))
    res = {}
    for p, ip, op in procs:
        _, err = p.communicate()
        if p.returncode != 0:
            raise ToolError("harness agent failed: " + err[-2000:])
        with open(op) as f:
            for ln in f:
                r = json.loads(ln)
                res[r["id"]] = r["events"]
        os.remove(ip)
        os.remove(op)
    return res
