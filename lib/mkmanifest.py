#!/usr/bin/env python3
"""Regenerates /verif/MANIFEST.json from the table below (run after adding a check)."""
import json
import os

ROOT = os.path.dirname(os.path.dirname(os.path.abspath(__file__)))
ALL = ["C%02d" % i for i in range(1, 21)]

AGENT_NOTE = ("Trusted: TLC 1.8 + CommunityModules; the Rust adapter /verif/harness (executes calls, projects results, no expectations); "
              "the python driver (label matching only). Bounded: 2 concurrent transactions in the exhaustive models, sampled beyond by trace validation. "
              "HMAC validity is abstracted to key identity in the agent model (byte-level truth is C04).")
AGENT_TECH = "TLA+ model checking (TLC) of StunAgent/MCAgent + LTS-guided replay into the real StunAgent + TLC trace validation of recorded runs"

CODEC_NOTE = "Trusted: TLC + CommunityModules (Json, IOUtils, Bitwise); the Rust adapter (records what the crates answer, no expectations); the python comparison (field equality) and, for HMAC/MD5 only, python's hmac/hashlib. Exhaustive over the enumerated skeleton space; values and mutants are sampled."

CHECKS = {
 "C05": dict(cat="model_checking", ref="3.1, 4, 5/C05", tech=AGENT_TECH, note=AGENT_NOTE,
   text="TLC checks the life-cycle step properties (C05Step: events only while open, removal iff completion event, duplicate send refused, unknown responses ignored, id reusable) on every transition of the bounded agent models (UDP and TCP, 2 transactions, all interleavings of send/recv/poll/cancel/configure/credentials). Every (state,input) pair of the dumped LTSs plus all input words to depth 3/4 and random walks are executed on the real StunAgent and followed through the LTS, comparing every reply and the API-visible outstanding set after every call; random long histories with real values are validated by TLC against the same actions."),
 "C06": dict(cat="model_checking", ref="3.1, 4, 5/C06", tech=AGENT_TECH, note=AGENT_NOTE + " Millisecond granularity; retransmits <= 8.",
   text="TLC checks ScheduleInv (the wait/retransmit/timeout decision at every instant equals the one derived from the observable events and the configured rto/retransmits/last), PromiseInv (WaitUntil(w): nothing due before w, same w when polled earlier, an event at w), CancelInv and no-transmit-after-cancel on timing models (1-2 transactions x 7 timeout configurations x tick sizes, UDP/TCP) and on the code's real default schedule (0.5 s units: due at 1,3,7,15,31,63, timeout 79). The LTSs are replayed into the real agent at time scales 1 ms, 500 ms, 60 s, 2^20 ms with an early-poll probe after every step that exposes the hidden timer position; random histories with rto 1..60000, retransmits 0..8, last 0..60000 and early/exact/late polls are validated by TLC."),
 "C07": dict(cat="model_checking", ref="3.1, 5/C07", tech=AGENT_TECH, note=AGENT_NOTE,
   text="TLC checks AuthResponses on every transition (delivered iff not sealed or remote credentials set and integrity validates under them; a drop leaves the whole agent state, hence every timer, unchanged) with credentials changing at any time. Replay uses real HMAC-SHA1/SHA256 messages (valid key, other key, unsigned, corrupted HMAC; short- and long-term credentials), probes the timer after each dropped response and checks the genuine response is still delivered."),
 "C15": dict(cat="model_checking", ref="3.1, 5/C15", tech=AGENT_TECH, note=AGENT_NOTE,
   text="TLC checks Validation on every transition (monotone; grows only by the sender of an accepted request/indication/delivered response; drops never validate). Replay and trace validation compare is_validated_peer for every address of the universe (incl. the local address and destinations) after every call."),
 "C18": dict(cat="model_checking", ref="3.1, 5/C18", tech=AGENT_TECH, note=AGENT_NOTE,
   text="TLC checks that every Transmit reply carries the payload and destination recorded at send time (ghost computed from events only). The adapter serialises each builder itself before send and compares every transmission (initial and retransmissions) byte for byte, plus from/to/transport and peer_address while outstanding; indications and responses leave the state unchanged."),
 "C02": dict(cat="model_checking", ref="3.5, 5/C02, App. B", tech="TLA+ specification of the parser (operational Parse vs declarative WellFormed) model-checked by TLC over all message skeletons; every skeleton, builder-generated message and byte mutant replayed into Message::from_bytes and judged by the TLA+ reference decoder", note=CODEC_NOTE,
   text="TLC enumerates every message skeleton (16 attribute letters incl. integrity/fingerprint with right and wrong lengths and CRCs, 13 header variants incl. top bits, cookie and declared-length defects, truncation defects of the last attribute) to depth 2-4 (thorough 3-5) and checks on each that the operational parser accepts iff the declarative well-formedness of C02 holds and that the reported error is one the buffer justifies. Each skeleton, 250 (4000) builder-generated messages over all 19 attribute types and 4 (8) byte-level mutants of each are parsed by the implementation; verdict, error variant and carried type, class/method/id, exposed (type,value) sequence and first-match lookups are compared with the TLA+ decoder's."),
 "C10": dict(cat="model_checking", ref="3.5, 5/C10", tech="TLC checks ExposureInv on all integrity/fingerprint tail shapes; iteration/lookup of the implementation compared with Exposed()/Lookup() of the TLA+ decoder on every accepted case", note=CODEC_NOTE,
   text="All orders and subsets of {MESSAGE-INTEGRITY, MESSAGE-INTEGRITY-SHA256, FINGERPRINT} (several lengths / CRC variants) after 0-2 (thorough 0-4) ordinary attributes are enumerated by TLC, which checks that the exposed attributes are exactly: everything up to and including the first integrity attribute, a SHA256 directly following a MESSAGE-INTEGRITY, the FINGERPRINT; that FINGERPRINT is always exposed; and that every exposed non-ending attribute ends before the offset validate_integrity authenticates. iter_attributes, raw_attribute, has_attribute and attribute::<T>() of the implementation are compared with that on every accepted enumerated and builder/externally sealed message."),
 "C16": dict(cat="model_checking", ref="3.5, 5/C16", tech="Police() of the TLA+ specification evaluated by TLC on enumerated and generated requests x supported/required subsets, compared with check_attribute_types; comprehension_required compared on all 65536 types", note=CODEC_NOTE,
   text="For TLC-enumerated request skeletons (incl. duplicates and attributes hidden after integrity) and builder-generated requests, check_attribute_types is called with empty, full and random supported/required subsets of the types present and absent; the verdict (none/400/420), the UNKNOWN-ATTRIBUTES list in message order, class/method/transaction id/ERROR-CODE of the generated response and its re-parse are compared with Police(). comprehension_required is compared with 'type < 0x8000' on all 65536 types (exhaustive)."),
 "C17": dict(cat="model_checking", ref="3.5, 5/C17", tech="ParsePrefix of the TLA+ specification evaluated by TLC for EVERY cut point of every well-formed case, compared with Message::from_bytes and MessageHeader::from_bytes", note=CODEC_NOTE + " Exhaustive in cut points per message.",
   text="For every well-formed enumerated skeleton and every builder-generated message up to 260 (900) bytes, every strict prefix is parsed by the implementation and by the specification: Truncated{20, n} below 20 bytes and Truncated{len(m), n} from 20 bytes on (both MUST, exact numbers); the stand-alone header decoder accepts exactly from 20 bytes and reports the same type, id and declared length."),
 "C04": dict(cat="fault_enumeration", ref="3.5, 3.7, 5/C04", tech="IntegrityPlan/KeyPlan of the TLA+ specification (which attribute, which bytes, which key) evaluated by TLC + independent HMAC/MD5 oracle (python hmac/hashlib) + complete single-bit-flip enumeration; messages sealed by the library and independently by the adapter", note=CODEC_NOTE + " HMAC collisions assumed not to occur.",
   text="Messages sealed by the builder and, independently of the library, by the adapter's own RFC 8489 sealing (SHA-1, SHA-256 incl. truncations 16..32 and illegal lengths, both, with/without FINGERPRINT; short/long-term credentials over random UTF-8 incl. empty strings and ':') are validated under the sealing credentials and under alternatives (other password, short-vs-long, long-term differing in user or realm). TLC's IntegrityPlan names the checked attribute, the exact authenticated bytes (length field rewritten to the end of the attribute) and the claimed MAC; KeyPlan names the key input; python computes HMAC/MD5 on exactly those bytes; verdict and reported algorithm must match. For a sample every single-bit flip and random byte substitutions of the whole buffer are enumerated and judged the same way (rejected by the parser, or validation fails, exactly when spec+oracle say so)."),
 "C08": dict(cat="model_checking", ref="3.4, 5/C08", tech="per-type Verdict/Fields/Encode in TLA+ (StunAttrs), round-trip theorems checked by TLC on complete small domains (MCAttrs); implementation decoders/encoders judged case by case by TLC", note=CODEC_NOTE + " USERNAME 509..513, ALTERNATE-DOMAIN > 255, empty PASSWORD-ALGORITHMS and set reserved bits are as-is.",
   text="TLC checks decode(encode)=id, validity of encodings and re-encoding stability for all 19 types over every length 0..40 x 3 contents, all 65536 ERROR-CODE (class,number) byte pairs and every address family byte. The implementation's 19 decoders are run on every value length 0..800 (quick: around every guard), all strings <= 2 over a 20-byte UTF-8 boundary alphabet (+ sampled 3-4), class/number bytes, family bytes, algorithm ids/parameter lengths/trailing bytes, random blobs; accept/refuse, every exposed field, the re-encoding through the public constructor and wrong-implementation refusal by the other 18 decoders are compared with the specification."),
 "C09": dict(cat="fault_enumeration", ref="3.4, 3.5, 5/C09", tech="CRC-32 written in TLA+; builder fingerprints and every mutant judged by the TLA+ decoder (re-checks the CRC whenever a FINGERPRINT is still in place); complete single-bit-flip enumeration + sampled bursts/substitutions", note=CODEC_NOTE + " Burst detection rests on CRC-32's mathematics.",
   text="Every generated message with a FINGERPRINT (appended by the builder or computed independently by the adapter) must be accepted, which in the specification means FINGERPRINT = CRC-32(ISO-HDLC, written in TLA+ and checked against the standard check value) of the preceding bytes with the length field covering the attribute, XOR 0x5354554e. For 14 (150) of them all single-bit flips, sampled bursts of every length 2..32 and random byte substitutions are judged by the TLA+ decoder; the implementation must agree on accept/reject for each mutant (mutants whose FINGERPRINT was dissolved into other well-formed attributes are accepted by both)."),
 "C13": dict(cat="model_checking", ref="3.4, 5/C13", tech="XorAddr in TLA+ with involution/injectivity checked exhaustively over bytes and ports; wire values and constructor round trips of the implementation judged by TLC", note=CODEC_NOTE,
   text="TLC checks byte-wise XOR involution and key-injectivity over all byte pairs, the port XOR over all 65536 ports and the RFC 8489 14.2 layout (port with 0x2112, IPv4 with the cookie, IPv6 with cookie||id; another id gives another IPv6 address). Wire values with boundary and random addresses/ports/ids are decoded by the implementation and by the specification; XorMappedAddress::new(a,t) -> to_raw -> from_raw -> addr(t)=a, the wire bytes, write_into, and decoding under another id are recorded for thousands of (a,t) and judged by TLC."),
 "C14": dict(cat="model_checking", ref="3.3, 5/C14", tech="TLA+ model checking (TLC) of TcpFraming/MCTcpFraming + replay of every LTS edge into the real TcpBuffer + TLC trace validation of recorded runs with real frame sizes",
   note="Trusted: TLC, the Rust adapter, the python label matcher. Exhaustive for streams of <= 8 (thorough 11) bytes with frame lengths 0..2; lengths up to 65535 are sampled by trace validation.",
   text="TLC checks on all frame sequences x all chunkings x all push/pull interleavings that the pulled frames are a prefix of the sent frames (none lost, duplicated, merged, reordered, altered), that no byte is lost or invented, that pull answers nothing exactly when no complete frame is buffered and then leaves the buffer intact, and that everything is delivered once pushed. Every edge of the dumped LTS is executed on the real TcpBuffer; random frame sequences with lengths from {0,1,2,253..258,65534,65535,...} and random chunking (1-byte chunks, multi-frame chunks) are recorded and validated by TLC with the same invariants."),
 "C19": dict(cat="model_checking", ref="3.4, 5/C19", tech="RFC 8489 s5 bit layout as TLA+ formulas, algebra checked exhaustively by TLC; the implementation's complete encode/decode table judged by TLC", note=CODEC_NOTE,
   text="TLC checks over all 4x4096 (class, method) pairs and all 16384 in-range field values that TypeField/ClassOf/MethodOf are mutually inverse and implement the M11..M7 C1 M6..M4 C0 M3..M0 interleaving bit by bit. The implementation's decode of all 65536 field values (incl. NotStun for the top-bit ones), its encode of all 16384 pairs (to_bytes and write_into), and transaction ids (boundary patterns, every single bit, random) through From<u128>, the builder, the parser and the header decoder, plus 10000 generated ids, are recorded and judged by TLC record by record (exhaustive for the type field)."),
 "C20": dict(cat="model_checking", ref="3.2, 5/C20", tech="TLA+ self-composition (StunAgentShift) checked by TLC + replay of identical LTS scripts under shifted base instants, another thread and decoy agents", note=AGENT_NOTE + " Ambient state other than the clock, thread and other agents is not varied.",
   text="TLC checks on the two-copy product that the same history shifted by D gives the same state and replies shifted by D, that the same poll choices are open, and that an instant passed for one transaction never changes another's record. Every LTS script is executed at base T0, T0+10^9 ms, on a spawned thread and interleaved with decoy agents (base 10^6 s away from the real clock, so a stray Instant::now() cannot agree); all runs must conform to the same LTS and, where no poll choice was open, agree event for event."),
}


def main():
    checks = []
    for pid in ALL:
        if pid not in CHECKS:
            continue
        c = CHECKS[pid]
        checks.append({
            "property_id": pid,
            "quick_cmd": "./check %s --tier quick" % pid,
            "thorough_cmd": "./check %s --tier thorough" % pid,
            "evidence_file": "/verif/evidence/%s.json" % pid,
            "replay_cmd_template": "./check %s --replay {path}" % pid,
            "level_claimed": {"category": c["cat"], "text": c["text"], "design_ref": "DESIGN.md " + c["ref"]},
            "level_note": c["note"],
            "technique": c["tech"],
        })
    na = [{"property_id": p, "reason": "check not built yet (work in progress; see DESIGN.md section 11)"} for p in ALL if p not in CHECKS]
    m = {
        "version": 1,
        "setup_cmd": "./check setup",
        "hooks": {
            "guard": "ystreet_stun_proto_verif",
            "enable": "no source hooks are needed: the adapter drives the public API (DESIGN.md section 4); the harness is nevertheless compiled with --cfg ystreet_stun_proto_verif (harness/.cargo/config.toml) so that a later hook would be picked up",
            "baseline_off_cmd": "cd /repo && cargo test --workspace --no-fail-fast --offline",
            "source_commits": [],
            "add_only": True,
        },
        "engines": [
            {"name": "tlc", "path": "/opt/veriftools/tla/tla2tools.jar", "serves_properties": ALL, "kind_free_text": "explicit-state model checker for the TLA+ specification in /verif/spec; also the reference evaluator in trace validation"},
            {"name": "stunh", "path": "/verif/harness", "serves_properties": ALL, "kind_free_text": "Rust adapter: executes abstract scripts/cases on the real crates and records what they answer"},
        ],
        "checks": checks,
        "not_applicable": na,
        "notes": "Genuine defects found and repaired by fix: commits in /repo are listed in known_findings.json (fixed entries suppress nothing).",
    }
    with open(os.path.join(ROOT, "MANIFEST.json"), "w") as f:
        json.dump(m, f, indent=1)
    print("checks:", [c["property_id"] for c in checks])


if __name__ == "__main__":
    main()
