"""StunTcpExchange.tla bound to a real TCP-transport StunAgent, two real TcpBuffers and a server built from the
library's calls, joined by byte streams that deliver in the segments the model's LTS dictates (adapter mode `tcpx`)."""
import json, os, random, time

from common import run_tlc, ToolError, tlc_ok
from agentlib import canon
from paircheck import PairLts, tour, walks, run_pair_scripts


def tkey(l):
    op = l["op"]
    if op == "send":
        return (op, l["tid"])
    if op == "tick":
        return (op, l["d"])
    if op == "deliver":
        return (op, l["dir"], l["k"])
    return (op,)


def agent_reply_ok(spec, ret, lbl, scale):
    k = spec.get("k")
    op = lbl["op"]
    if k == "-":
        return ret.get("k") == "-"
    if op == "send":
        if k == "err":
            return ret.get("k") == "err" and ret.get("e") == spec["e"]
        return ret.get("k") == "transmit" and ret.get("tid") == lbl["tid"] and ret.get("addressed") is True
    if op == "poll":
        if k == "wait":
            return ret.get("k") == "wait" and (spec["idle"] or ret.get("until_ms") == spec["until"] * scale)
        if k == "transmit":
            return ret.get("k") == "transmit" and ret.get("tid") == spec["tid"] and ret.get("addressed") is True
        return ret.get("k") == k and ret.get("tid") == spec["tid"]
    if op == "client_pull":
        if k == "response":
            return ret.get("k") == "response" and ret.get("same") is True and ret.get("mapped_ok") is True
        return ret.get("k") == k
    return False


def tcpx_binding(pid, tier, seed, wd, rep):
    t0 = time.time()
    mc = run_tlc("StunTcpExchange.tla", "StunTcpExchange_mc.cfg" if tier == "quick" else "StunTcpExchange_mcx.cfg", workers=6, timeout=3000)
    tlc_ok(mc, "StunTcpExchange model checking")
    path = os.path.join(wd, "tcpx.lts")
    res = run_tlc("StunTcpExchange.tla", "StunTcpExchange_lts.cfg", workers=1, timeout=3000, out_path=path)
    tlc_ok(res, "StunTcpExchange LTS")
    l = PairLts.load(path, tkey)
    os.remove(path)
    rng = random.Random(seed + 911)
    words, left = tour(l, 40, 600000 if tier == "quick" else 5000000)
    words += walks(l, 300 if tier == "quick" else 4000, 60, rng)
    scripts = {}
    for i, w in enumerate(words):
        sc = {"id": "tcpx/%d" % i, "seed": i + seed, "scale": [1, 500, 20000][i % 3], "ntids": 4, "install": [1, 0, 2],
              "steps": [l.lbl[k] for k in w], "fingerprint": i % 2 == 0, "one_push": i % 4 != 3, "remote_addr": i % 5 == 0}
        scripts[sc["id"]] = sc
    steps = mism = trunc = 0
    seen = {}
    for sid_, events in run_pair_scripts(list(scripts.values()), wd, "tcpx", mode="tcpx"):
        sc = scripts[sid_]
        s = l.init
        for si, ev in enumerate(events):
            props = what = None
            if si >= len(sc["steps"]) or ev.get("i") != si:
                props, what = ["C14", "C05", "C06"], "the adapter did not complete the script: %s" % json.dumps(ev.get("ret"))[:200]
            else:
                lbl = sc["steps"][si]
                edges = l.trans[s].get(tkey(lbl))
                if edges is None:
                    # an earlier nondeterministic outcome (which of two requests due at the same instant poll serves)
                    # went the other way than the word was planned for: the rest of the word does not apply
                    trunc += 1
                    break
                ret = ev["ret"]
                cand = []
                for (r, d) in edges:
                    if list(r["tcp"]) != list(ret["tcp"]):
                        props, what = ["C14"], "TcpBuffer answered %s, specification %s" % (json.dumps(ret["tcp"])[:120], json.dumps(r["tcp"]))
                        continue
                    if not agent_reply_ok(r["agent"], ret["agent"], lbl, sc["scale"]):
                        op = lbl["op"]
                        props = {"send": ["C05", "C18"], "poll": ["C06", "C05"], "client_pull": ["C05"]}.get(op, ["C05"])
                        if ret["agent"].get("k") == "panic":
                            props = ["C05", "C06", "C14", "C18"]
                        what = "agent answered %s, specification %s" % (json.dumps(ret["agent"])[:160], json.dumps(r["agent"]))
                        continue
                    cand.append(d)
                go = None
                for d in cand:
                    dst = l.states[d]
                    o = ev["obs"]
                    if o["out"] != [x[0] for x in dst[0]]:
                        props, what = ["C05"], "outstanding %s, specification %s" % (o["out"], [x[0] for x in dst[0]])
                    elif o["val"] != dst[1] or o["val_other"]:
                        props, what = ["C15"], "server validated=%s, specification %s" % (o["val"], dst[1])
                    elif (o["cbuf"], o["sbuf"], o["c2s"], o["s2c"]) != (len(dst[2]), len(dst[3]), len(dst[4]), len(dst[5])):
                        props, what = ["C14", "C18"], "bytes buffered/on the streams %s, specification %s" % ((o["cbuf"], o["sbuf"], o["c2s"], o["s2c"]), (len(dst[2]), len(dst[3]), len(dst[4]), len(dst[5])))
                    elif o["nsent"] != dst[7]:
                        props, what = ["C06", "C18"], "%d transmissions so far, specification %d" % (o["nsent"], dst[7])
                    else:
                        go = d
                        break
                if go is not None:
                    s = go
                    steps += 1
                    kk = "%s:%s/%s" % (lbl["op"], ret["agent"].get("k"), ret["tcp"][0])
                    seen[kk] = seen.get(kk, 0) + 1
                    continue
            mism += 1
            text = "STUN over a byte stream %s step %d: %s" % (sc["id"], si, what)
            if pid in props:
                rep.violation(text, {"kind": "tcpx_script", "script": sc})
            else:
                for p in props:
                    rep.note_foreign(p)
            break
    need = ["client_pull:response/frame", "client_pull:drop/frame", "client_pull:-/none", "server_pull:-/frame", "server_pull:-/none", "poll:timeout/-", "send:err/-"]
    missing = [k for k in need if not seen.get(k)]
    if missing and mism == 0:
        raise ToolError("vacuity: the byte-stream runs never produced " + ",".join(missing))
    return dict(model_states=mc["distinct"], model_transitions=mc["generated"], lts_states=len(l.states), lts_edges=l.nedges,
                scripts=len(scripts), steps=steps, state_label_pairs_not_toured=left, truncated_scripts=trunc, mismatches=mism, outcomes=seen, t=round(time.time() - t0, 1))


def replay_tcpx(script, wd):
    return dict(run_pair_scripts([script], wd, "tcpx_replay", mode="tcpx"))
