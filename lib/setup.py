"""MANIFEST.setup_cmd: build the adapter offline and syntax-check every specification module."""
from common import *  # noqa


def run():
    t = build_harness()
    log("harness built in %.1fs" % t)
    sany_all()
    log("specifications parse")
    # best effort: pre-build the hooked variants (cfg ystreet_stun_proto_verif) so that the first check does not pay for it
    try:
        import hooklib
        hb = hooklib.build_hooked_harness()
        log("hooked adapter:", "built" if hb else "does not build (hook-based validation will be skipped)")
        wd = workdir("setup")
        t, note = hooklib.run_repo_tests_hooked(wd)
        log("repository tests with hooks:", note)
    except Exception as e:       # never fatal
        log("hook pre-build skipped:", e)
    return 0
