"""MANIFEST.setup_cmd: build the adapter offline and syntax-check every specification module."""
from common import *  # noqa


def run():
    t = build_harness()
    log("harness built in %.1fs" % t)
    sany_all()
    log("specifications parse")
    return 0
