//! Independent sealing of messages (no stun-types code): HMAC-SHA1 / HMAC-SHA256 MESSAGE-INTEGRITY and
//! CRC-32 FINGERPRINT appended to already serialised bytes, with the RustCrypto primitives used directly.
//! Used so that messages handed to the agent / parser are sealed by something other than the code under test.
use hmac::{Hmac, Mac};
use md5::Digest;

#[derive(Clone, Debug)]
pub struct CredDesc {
    pub long: bool,
    pub user: String,
    pub realm: String,
    pub password: String,
}

impl CredDesc {
    pub fn key(&self) -> Vec<u8> {
        if self.long {
            let mut d = md5::Md5::new();
            d.update(format!("{}:{}:{}", self.user, self.realm, self.password).as_bytes());
            d.finalize().to_vec()
        } else {
            self.password.as_bytes().to_vec()
        }
    }
}

fn set_len(b: &mut [u8], n: usize) {
    b[2] = (n >> 8) as u8;
    b[3] = (n & 0xff) as u8;
}

/// append MESSAGE-INTEGRITY (sha1) or MESSAGE-INTEGRITY-SHA256 (optionally truncated) computed per RFC 8489 14.5/14.6
pub fn seal(mut bytes: Vec<u8>, key: &[u8], sha256: bool, trunc: usize) -> Vec<u8> {
    let mac_len = if sha256 { trunc } else { 20 };
    // (illegal lengths that are not a multiple of 4 are still padded so that the message stays a sequence of TLVs)
    let padded = (mac_len + 3) / 4 * 4;
    let new_body = bytes.len() - 20 + 4 + padded;
    set_len(&mut bytes, new_body);
    let mac: Vec<u8> = if sha256 {
        let mut h = Hmac::<sha2::Sha256>::new_from_slice(key).unwrap();
        h.update(&bytes);
        let d = h.finalize().into_bytes();
        // (lengths beyond the digest size are not legal encodings; pad so that such cases can be produced too)
        let mut m = d[..mac_len.min(32)].to_vec();
        m.resize(mac_len, 0xee);
        m
    } else {
        let mut h = Hmac::<sha1::Sha1>::new_from_slice(key).unwrap();
        h.update(&bytes);
        h.finalize().into_bytes().to_vec()
    };
    let ty: u16 = if sha256 { 0x001c } else { 0x0008 };
    bytes.extend_from_slice(&ty.to_be_bytes());
    bytes.extend_from_slice(&(mac_len as u16).to_be_bytes());
    bytes.extend_from_slice(&mac);
    bytes.resize(bytes.len() + padded - mac_len, 0);
    bytes
}

pub fn crc32(data: &[u8]) -> u32 {
    let mut c: u32 = 0xffff_ffff;
    for b in data {
        c ^= *b as u32;
        for _ in 0..8 {
            c = if c & 1 == 1 { (c >> 1) ^ 0xedb8_8320 } else { c >> 1 };
        }
    }
    !c
}

/// append FINGERPRINT per RFC 8489 14.7
pub fn fingerprint(mut bytes: Vec<u8>) -> Vec<u8> {
    let new_body = bytes.len() - 20 + 8;
    set_len(&mut bytes, new_body);
    let v = crc32(&bytes) ^ 0x5354_554e;
    bytes.extend_from_slice(&0x8028u16.to_be_bytes());
    bytes.extend_from_slice(&4u16.to_be_bytes());
    bytes.extend_from_slice(&v.to_be_bytes());
    bytes
}

/// append an integrity attribute (0x0008 or 0x001c) with an arbitrary value (possibly of an illegal length),
/// padded to 4 bytes, with the header length field updated
pub fn append_raw_integrity(mut bytes: Vec<u8>, sha256: bool, value: &[u8]) -> Vec<u8> {
    let padded = (value.len() + 3) / 4 * 4;
    let new_body = bytes.len() - 20 + 4 + padded;
    set_len(&mut bytes, new_body);
    let ty: u16 = if sha256 { 0x001c } else { 0x0008 };
    bytes.extend_from_slice(&ty.to_be_bytes());
    bytes.extend_from_slice(&(value.len() as u16).to_be_bytes());
    bytes.extend_from_slice(value);
    bytes.resize(bytes.len() + padded - value.len(), 0);
    bytes
}
