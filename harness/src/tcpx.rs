//! A real TCP-transport `StunAgent`, two real `TcpBuffer`s and a server built from the library's calls, joined by two
//! in-memory byte streams that deliver in the segments the script dictates (spec/StunTcpExchange.tla).  The application
//! framing (two length bytes, then the message) is done here, as an application has to do it.  A frame is cut into four
//! "units" - length byte, length byte, first half of the message, second half - which is the granularity at which the
//! specification places segment boundaries.  The adapter executes and reports; it does not know what should happen.

use std::collections::VecDeque;
use std::io::{BufRead, Write};
use std::net::SocketAddr;
use std::panic::{catch_unwind, AssertUnwindSafe};
use std::time::{Duration, Instant};

use serde_json::{json, Value};

use stun_proto::agent::*;
use stun_types::attribute::*;
use stun_types::message::*;
use stun_types::TransportType;

use crate::agent::Universe;

fn panic_msg(e: Box<dyn std::any::Any + Send>) -> String {
    if let Some(s) = e.downcast_ref::<&str>() {
        s.to_string()
    } else if let Some(s) = e.downcast_ref::<String>() {
        s.clone()
    } else {
        "panic".to_string()
    }
}

fn frame_units(msg: &[u8]) -> Vec<Vec<u8>> {
    let n = msg.len();
    let half = n / 2;
    vec![vec![(n >> 8) as u8], vec![(n & 0xff) as u8], msg[..half].to_vec(), msg[half..].to_vec()]
}

struct TcpxRun<'u> {
    u: &'u Universe,
    agent: StunAgent,
    local: SocketAddr,
    srv: SocketAddr,
    cbuf: TcpBuffer,
    sbuf: TcpBuffer,
    c2s: VecDeque<Vec<u8>>,
    s2c: VecDeque<Vec<u8>>,
    cbuf_units: usize,
    sbuf_units: usize,
    base: Instant,
    scale: u64,
    clock: u64,
    install: (u64, u32, u64),
    fingerprint: bool,
    one_push: bool,
    nsent: usize,
}

impl<'u> TcpxRun<'u> {
    fn at(&self) -> Instant {
        self.base + Duration::from_millis(self.clock * self.scale)
    }
    fn tid_index(&self, id: TransactionId) -> i64 {
        self.u.tids.iter().find(|(_, t)| **t == id).map(|(i, _)| *i).unwrap_or(-1)
    }
    fn client_transmit(&mut self, data: Vec<u8>, from: SocketAddr, to: SocketAddr, tr: TransportType) -> Value {
        let ti = Message::from_bytes(&data).map(|m| self.tid_index(m.transaction_id())).unwrap_or(-1);
        let addressed = from == self.local && to == self.srv && tr == TransportType::Tcp;
        if addressed {
            for u in frame_units(&data) {
                self.c2s.push_back(u);
            }
            self.nsent += 1;
        }
        json!({"k": "transmit", "tid": ti, "to": "srv", "addressed": addressed})
    }

    fn step(&mut self, s: &Value) -> Value {
        match s["op"].as_str().unwrap_or("") {
            "tick" => {
                self.clock += s["d"].as_u64().unwrap_or(1);
                json!({"agent": {"k": "-"}, "tcp": ["-"]})
            }
            "send" => {
                let ti = s["tid"].as_i64().unwrap();
                let tid = self.u.tids[&ti];
                let mut b = Message::builder(MessageType::from_class_method(MessageClass::Request, BINDING), tid);
                let sw = Software::new(&"tcp client ".repeat(1 + (ti as usize % 3))).unwrap();
                b.add_attribute(&sw).unwrap();
                if self.fingerprint {
                    b.add_fingerprint().unwrap();
                }
                let (to, at) = (self.srv, self.at());
                let r = catch_unwind(AssertUnwindSafe(|| self.agent.send(b, to, at).map(|tx| (tx.data().to_vec(), tx.from, tx.to, tx.transport))));
                let a = match r {
                    Err(e) => json!({"k": "panic", "msg": panic_msg(e)}),
                    Ok(Err(StunError::AlreadyInProgress)) => json!({"k": "err", "e": "AlreadyInProgress"}),
                    Ok(Err(e)) => json!({"k": "err", "e": format!("{e:?}")}),
                    Ok(Ok((data, from, to, tr))) => {
                        let (rto, n, last) = self.install;
                        if let Some(mut r) = self.agent.mut_request_transaction(tid) {
                            r.configure_timeout(Duration::from_millis(rto * self.scale), n, Duration::from_millis(last * self.scale));
                        }
                        self.client_transmit(data, from, to, tr)
                    }
                };
                json!({"agent": a, "tcp": ["-"]})
            }
            "poll" => {
                let (at, base) = (self.at(), self.base);
                let r = catch_unwind(AssertUnwindSafe(|| match self.agent.poll(at) {
                    StunAgentPollRet::WaitUntil(t) => (json!({"k": "wait", "until_ms": t.checked_duration_since(base).map(|d| d.as_millis() as i64).unwrap_or(-1)}), None, None),
                    StunAgentPollRet::TransactionTimedOut(t) => (json!({"k": "timeout"}), Some(t), None),
                    StunAgentPollRet::TransactionCancelled(t) => (json!({"k": "cancelled"}), Some(t), None),
                    StunAgentPollRet::SendData(tx) => (json!({"k": "tx"}), None, Some((tx.data().to_vec(), tx.from, tx.to, tx.transport))),
                }));
                let a = match r {
                    Err(e) => json!({"k": "panic", "msg": panic_msg(e)}),
                    Ok((mut j, Some(t), _)) => {
                        j["tid"] = json!(self.tid_index(t));
                        j
                    }
                    Ok((_, _, Some((data, from, to, tr)))) => self.client_transmit(data, from, to, tr),
                    Ok((j, None, None)) => j,
                };
                json!({"agent": a, "tcp": ["-"]})
            }
            "deliver" => {
                let k = s["k"].as_u64().unwrap_or(1) as usize;
                let c2s = s["dir"].as_str() == Some("c2s");
                let (wire, buf, cnt) = if c2s { (&mut self.c2s, &mut self.sbuf, &mut self.sbuf_units) } else { (&mut self.s2c, &mut self.cbuf, &mut self.cbuf_units) };
                if wire.len() < k {
                    return json!({"agent": {"k": "harness_short_wire"}, "tcp": ["-"]});
                }
                let units: Vec<Vec<u8>> = (0..k).map(|_| wire.pop_front().unwrap()).collect();
                *cnt += k;
                let one = self.one_push;
                let r = catch_unwind(AssertUnwindSafe(|| {
                    if one {
                        buf.push_data(&units.concat());
                    } else {
                        for u in &units {
                            buf.push_data(u);
                        }
                    }
                }));
                match r {
                    Ok(()) => json!({"agent": {"k": "-"}, "tcp": ["-"]}),
                    Err(e) => json!({"agent": {"k": "panic", "msg": panic_msg(e)}, "tcp": ["-"]}),
                }
            }
            "server_pull" => {
                let r = catch_unwind(AssertUnwindSafe(|| self.sbuf.pull_data()));
                match r {
                    Err(e) => json!({"agent": {"k": "-"}, "tcp": ["panic", panic_msg(e)]}),
                    Ok(None) => json!({"agent": {"k": "-"}, "tcp": ["none"]}),
                    Ok(Some(bytes)) => {
                        self.sbuf_units = self.sbuf_units.saturating_sub(4);
                        let from = self.local;
                        let fp = self.fingerprint;
                        let (desc, answer) = match Message::from_bytes(&bytes) {
                            Err(e) => (json!(["frame", format!("unparsable: {e:?}"), -1]), None),
                            Ok(m) => {
                                let ti = self.tid_index(m.transaction_id());
                                let kind = if m.has_class(MessageClass::Request) { "req" } else { "resp" };
                                let ans = if kind == "req" {
                                    let mut rb = Message::builder_success(&m);
                                    let xa = XorMappedAddress::new(from, m.transaction_id());
                                    rb.add_attribute(&xa).unwrap();
                                    if fp {
                                        rb.add_fingerprint().unwrap();
                                    }
                                    Some(rb.build())
                                } else {
                                    None
                                };
                                (json!(["frame", kind, ti]), ans)
                            }
                        };
                        if let Some(a) = answer {
                            for u in frame_units(&a) {
                                self.s2c.push_back(u);
                            }
                        }
                        json!({"agent": {"k": "-"}, "tcp": desc})
                    }
                }
            }
            "client_pull" => {
                let r = catch_unwind(AssertUnwindSafe(|| self.cbuf.pull_data()));
                match r {
                    Err(e) => json!({"agent": {"k": "-"}, "tcp": ["panic", panic_msg(e)]}),
                    Ok(None) => json!({"agent": {"k": "-"}, "tcp": ["none"]}),
                    Ok(Some(bytes)) => {
                        self.cbuf_units = self.cbuf_units.saturating_sub(4);
                        let (srv, local) = (self.srv, self.local);
                        match Message::from_bytes(&bytes) {
                            Err(e) => json!({"agent": {"k": "-"}, "tcp": ["frame", format!("unparsable: {e:?}"), -1]}),
                            Ok(m) => {
                                let tid = m.transaction_id();
                                let ti = self.tid_index(tid);
                                let kind = if m.has_class(MessageClass::Request) { "req" } else { "resp" };
                                let mapped_ok = m.attribute::<XorMappedAddress>().map(|a| a.addr(tid) == local).unwrap_or(false);
                                let a = match catch_unwind(AssertUnwindSafe(|| match self.agent.handle_stun(m, srv) {
                                    HandleStunReply::Drop => json!({"k": "drop"}),
                                    HandleStunReply::StunResponse(r) => json!({"k": "response", "same": r.transaction_id() == tid, "mapped_ok": mapped_ok}),
                                    HandleStunReply::IncomingStun(_) => json!({"k": "incoming"}),
                                })) {
                                    Ok(v) => v,
                                    Err(e) => json!({"k": "panic", "msg": panic_msg(e)}),
                                };
                                json!({"agent": a, "tcp": ["frame", kind, ti]})
                            }
                        }
                    }
                }
            }
            other => json!({"agent": {"k": "harness_unknown_step", "op": other}, "tcp": ["-"]}),
        }
    }

    fn observe(&self) -> Value {
        let out: Vec<i64> = self.u.tids.iter().filter(|(_, t)| self.agent.request_transaction(**t).is_some()).map(|(i, _)| *i).collect();
        json!({"out": out, "val": self.agent.is_validated_peer(self.srv), "val_other": self.agent.is_validated_peer(self.local),
               "c2s": self.c2s.len(), "s2c": self.s2c.len(), "cbuf": self.cbuf_units, "sbuf": self.sbuf_units, "nsent": self.nsent})
    }
}

pub fn run_tcpx_script(script: &Value) -> Vec<Value> {
    let seed = script["seed"].as_u64().unwrap_or(0);
    let u = Universe::new(seed, script["ntids"].as_i64().unwrap_or(4), 0);
    let (local, srv): (SocketAddr, SocketAddr) = if seed % 2 == 0 {
        ("10.2.0.1:50000".parse().unwrap(), "10.2.0.2:3478".parse().unwrap())
    } else {
        ("[2001:db8:2::1]:50000".parse().unwrap(), "[2001:db8:2::2]:3478".parse().unwrap())
    };
    let mut ab = StunAgent::builder(TransportType::Tcp, local);
    if script["remote_addr"].as_bool().unwrap_or(false) {
        ab = ab.remote_addr(srv);
    }
    let inst = script["install"].as_array().map(|a| (a[0].as_u64().unwrap(), a[1].as_u64().unwrap() as u32, a[2].as_u64().unwrap())).unwrap_or((1, 0, 2));
    let mut run = TcpxRun {
        u: &u,
        agent: ab.build(),
        local,
        srv,
        cbuf: TcpBuffer::default(),
        sbuf: TcpBuffer::default(),
        c2s: VecDeque::new(),
        s2c: VecDeque::new(),
        cbuf_units: 0,
        sbuf_units: 0,
        base: Instant::now() + Duration::from_millis(1_000_000_000),
        scale: script["scale"].as_u64().unwrap_or(1),
        clock: 0,
        install: inst,
        fingerprint: script["fingerprint"].as_bool().unwrap_or(false),
        one_push: script["one_push"].as_bool().unwrap_or(true),
        nsent: 0,
    };
    let mut evs = vec![];
    for (i, s) in script["steps"].as_array().unwrap().iter().enumerate() {
        let ret = run.step(s);
        evs.push(json!({"i": i, "ret": ret, "obs": run.observe(), "clock": run.clock}));
    }
    evs
}

/// `stunh tcpx <scripts.ndjson> <out.ndjson>`
pub fn main_tcpx(args: &[String]) {
    let f = std::io::BufReader::new(std::fs::File::open(&args[0]).expect("scripts"));
    let mut out = std::io::BufWriter::new(std::fs::File::create(&args[1]).expect("out"));
    for line in f.lines() {
        let line = line.unwrap();
        if line.trim().is_empty() {
            continue;
        }
        let script: Value = serde_json::from_str(&line).unwrap();
        let evs = match catch_unwind(AssertUnwindSafe(|| run_tcpx_script(&script))) {
            Ok(e) => e,
            Err(e) => vec![json!({"i": -1, "ret": {"agent": {"k": "panic", "msg": panic_msg(e)}, "tcp": ["-"]}})],
        };
        writeln!(out, "{}", json!({"id": script["id"], "events": evs})).unwrap();
    }
    out.flush().unwrap();
}
