//! C19: dump what the implementation computes for every message-type field value, every
//! (class, method) pair and a set of transaction ids.  No expectations here: TLC (MCHeader) judges.
use std::io::Write;

use rand::{rngs::StdRng, Rng, SeedableRng};
use serde_json::json;
use stun_types::attribute::{AttributeType, RawAttribute};
use stun_types::message::*;

pub fn class_name(c: MessageClass) -> &'static str {
    match c {
        MessageClass::Request => "request",
        MessageClass::Indication => "indication",
        MessageClass::Success => "success",
        MessageClass::Error => "error",
    }
}
pub fn class_of(s: &str) -> MessageClass {
    match s {
        "request" => MessageClass::Request,
        "indication" => MessageClass::Indication,
        "success" => MessageClass::Success,
        _ => MessageClass::Error,
    }
}

pub fn main_table(args: &[String]) {
    let mut out = std::io::BufWriter::new(std::fs::File::create(&args[0]).expect("out"));
    let seed: u64 = args.get(1).and_then(|s| s.parse().ok()).unwrap_or(1);
    for f in 0..=65535u32 {
        let b = (f as u16).to_be_bytes();
        let r = std::panic::catch_unwind(|| MessageType::from_bytes(&b));
        // every decoding path of the type field must give the same verdict: TryFrom, the 20-byte header decoder and
        // the full parser on a header-only message with this type field
        let mut hdr = vec![b[0], b[1], 0, 0, 0x21, 0x12, 0xa4, 0x42];
        hdr.extend_from_slice(&[7u8; 12]);
        let paths_agree = std::panic::catch_unwind(|| {
            let a = MessageType::from_bytes(&b).ok().map(|t| (t.class(), t.method()));
            let t2 = MessageType::try_from(&b[..]).ok().map(|t| (t.class(), t.method()));
            let h = MessageHeader::from_bytes(&hdr).ok().map(|h| (h.get_type().class(), h.get_type().method()));
            let m = Message::from_bytes(&hdr).ok().map(|m| (m.class(), m.method()));
            let m2 = Message::from_bytes(&hdr).ok().map(|m| (m.get_type().class(), m.get_type().method()));
            let preds = Message::from_bytes(&hdr).ok().map_or(true, |m| m.has_method(m.method()) && m.has_class(m.class()));
            // the field as it arrives: at the front of a longer slice (a header, a datagram)
            let a3 = MessageType::from_bytes(&hdr[..3]).ok().map(|t| (t.class(), t.method()));
            let a20 = MessageType::from_bytes(&hdr).ok().map(|t| (t.class(), t.method()));
            let t20 = MessageType::try_from(&hdr[..]).ok().map(|t| (t.class(), t.method()));
            let kind = |r: Result<MessageType, StunParseError>| match r { Ok(_) => 0, Err(StunParseError::NotStun) => 1, Err(_) => 2 };
            let same_refusal = kind(MessageType::from_bytes(&b)) == kind(MessageType::from_bytes(&hdr));
            a == t2 && a == h && a == m && a == m2 && preds && a == a3 && a == a20 && a == t20 && same_refusal
        }).unwrap_or(false);
        let j = match r {
            Err(_) => json!({"k": "dec", "f": f, "ok": false, "err": "panic"}),
            Ok(Err(StunParseError::NotStun)) => json!({"k": "dec", "f": f, "ok": false, "err": if paths_agree { "NotStun" } else { "NotStun but other decoding paths disagree" }}),
            Ok(Err(e)) => json!({"k": "dec", "f": f, "ok": false, "err": format!("{e:?}")}),
            Ok(Ok(t)) => {
                // has_class / has_method / is_response must agree with class()/method()
                let consistent = paths_agree && t.has_class(t.class()) && t.has_method(t.method())
                    && t.is_response() == matches!(t.class(), MessageClass::Success | MessageClass::Error);
                json!({"k": "dec", "f": f, "ok": consistent, "class": class_name(t.class()), "method": t.method()})
            }
        };
        writeln!(out, "{}", j).unwrap();
    }
    for c in [MessageClass::Request, MessageClass::Indication, MessageClass::Success, MessageClass::Error] {
        for m in 0..4096u16 {
            // a panic while encoding is an answer (no field value): recorded as such, the judge reports it
            let enc = std::panic::catch_unwind(|| enc_record(c, m));
            let j = enc.unwrap_or_else(|_| json!({"k": "enc", "class": class_name(c), "method": m, "f": 1u32 << 20, "bytes": [], "panic": true}));
            writeln!(out, "{}", j).unwrap();
        }
    }
    tid_records(&mut out, seed);
    out.flush().unwrap();
}

fn enc_record(c: MessageClass, m: u16) -> serde_json::Value {
    {
        {
            let t = MessageType::from_class_method(c, m);
            let bytes = t.to_bytes();
            let mut w = [0u8; 2];
            t.write_into(&mut w);
            // (a destination longer than the field: a header buffer)
            let mut w20 = [0xeeu8; 20];
            t.write_into(&mut w20);
            let roomy_ok = w20[..2] == w && w20[2..].iter().all(|x| *x == 0xee);
            // responses derived from a request of this method (builder_success / builder_error and what is built on them)
            let derived_ok = if c == MessageClass::Request {
                let rq = Message::builder(t, TransactionId::from(6)).build();
                match Message::from_bytes(&rq) {
                    Err(_) => false,
                    Ok(rm) => {
                        let ty_of = |b: Vec<u8>| Message::from_bytes(&b).ok().map(|p| (p.class(), p.method()));
                        ty_of(Message::builder_success(&rm).build()) == Some((MessageClass::Success, m))
                            && ty_of(Message::builder_error(&rm).build()) == Some((MessageClass::Error, m))
                            && ty_of(Message::bad_request(&rm).build()) == Some((MessageClass::Error, m))
                            && ty_of(Message::unknown_attributes(&rm, &[AttributeType::new(0x7f00)]).build()) == Some((MessageClass::Error, m))
                    }
                }
            } else { true };
            let built = Message::builder(t, TransactionId::from(5)).build();
            let via_parser = Message::from_bytes(&built).ok().map(|p| (p.class(), p.method(), p.get_type().class(), p.get_type().method()));
            // the type field is written independently of what follows: also with bodies beyond the 16-bit length
            let mut big_ok = true;
            if m % 512 == 0 || m == 0xffc {
                // methods whose low bits are clear, bodies of about 80 KB and 160 KB (length >> 16 is 1 resp. 2)
                let blob = vec![7u8; 40000];
                for nblobs in [2u16, 4] {
                    let mut bb = Message::builder(t, TransactionId::from(5));
                    for k in 0..nblobs {
                        bb.add_raw_attribute(RawAttribute::new(AttributeType::new(0x7f31 + k), &blob)).unwrap();
                    }
                    let out = bb.build();
                    big_ok = big_ok && out[..2] == w && out[4..8] == [0x21, 0x12, 0xa4, 0x42];
                }
            }
            let f = if bytes == w && built[..2] == w && big_ok && roomy_ok && derived_ok && via_parser == Some((c, m, c, m)) { u16::from_be_bytes(w) as u32 } else { 1 << 20 };
            json!({"k": "enc", "class": class_name(c), "method": m, "f": f, "bytes": bytes})
        }
    }
}

fn tid_records(out: &mut impl Write, seed: u64) {
    let mut rng = StdRng::seed_from_u64(seed);
    let mut wides: Vec<u128> = vec![0, 1, u128::MAX, (1u128 << 96) - 1, 1u128 << 96, (1u128 << 96) + 1, 0x2112A442u128 << 96,
        0xffff_ffffu128 << 96, 1u128 << 95, 1u128 << 127, 0x0102_0304_0506_0708_090a_0b0c_0d0e_0f10];
    for i in 0..128 {
        wides.push(1u128 << i);
        wides.push(!(1u128 << i));
    }
    for _ in 0..2000 {
        wides.push(rng.gen());
    }
    for w in wides {
        let tid = TransactionId::from(w);
        let back: u128 = tid.into();
        let hdr = Message::builder(MessageType::from_class_method(MessageClass::Request, BINDING), tid).build();
        // (a failure must not look like any id: an empty byte string, which no 96-bit id equals)
        let parsed: Option<u128> = Message::from_bytes(&hdr).ok().map(|m| m.transaction_id().into());
        let hparsed: Option<u128> = MessageHeader::from_bytes(&hdr).ok().map(|m| m.transaction_id().into());
        // every object that carries the id reports the same 96-bit value: the builder itself, the parsed message, and the
        // response builders derived from the parsed message (as integers and as TransactionId values)
        let routes: Vec<u128> = std::panic::catch_unwind(|| {
            let mut v: Vec<TransactionId> = vec![Message::builder(MessageType::from_class_method(MessageClass::Request, BINDING), tid).transaction_id()];
            if let Ok(m) = Message::from_bytes(&hdr) {
                v.push(m.transaction_id());
                v.push(Message::builder_success(&m).transaction_id());
                v.push(Message::builder_error(&m).transaction_id());
                v.push(Message::bad_request(&m).transaction_id());
                v.push(Message::unknown_attributes(&m, &[AttributeType::new(0x7e01)]).transaction_id());
                if let Some(b) = Message::check_attribute_types(&m, &[], &[AttributeType::new(0x7e02)]) { v.push(b.transaction_id()); }
            }
            if v.iter().any(|x| *x != tid) { vec![u128::MAX] } else { v.into_iter().map(|x| x.into()).collect() }
        }).unwrap_or_else(|_| vec![u128::MAX]);
        let p: Vec<u8> = match (parsed, hparsed) {
            (Some(a), Some(b)) if a == b && a >> 96 == 0 && routes.iter().all(|r| *r == a) => a.to_be_bytes()[4..].to_vec(),
            _ => vec![],
        };
        writeln!(out, "{}", json!({"k": "tid", "wide": w.to_be_bytes().to_vec(), "hdr": hdr,
            "back": back.to_be_bytes()[4..].to_vec(), "parsed": p, "top_zero": back >> 96 == 0})).unwrap();
    }
    for _ in 0..10000 {
        let w: u128 = TransactionId::generate().into();
        writeln!(out, "{}", json!({"k": "gen", "wide": w.to_be_bytes().to_vec()})).unwrap();
    }
}
