//! Adapter for stun-types: for every case (a byte buffer and what to ask about it) record what the
//! implementation answers, at every public decoding entry point and read-only operation.
//! No expectations live here; a panic or a hang is recorded as data.
use std::io::{BufRead, Write};
use std::net::SocketAddr;
use std::panic::{catch_unwind, AssertUnwindSafe};
use std::sync::atomic::{AtomicU64, Ordering};
use std::sync::Arc;

use serde_json::{json, Value};
use stun_types::attribute::*;
use stun_types::message::*;

use crate::table::class_name;

pub fn bytes_of(v: &Value) -> Vec<u8> {
    v.as_array().map(|a| a.iter().map(|x| x.as_u64().unwrap_or(0) as u8).collect()).unwrap_or_default()
}

pub fn perr(e: &StunParseError) -> Value {
    match e {
        StunParseError::NotStun => json!({"ok": false, "err": "NotStun"}),
        StunParseError::Truncated { expected, actual } => json!({"ok": false, "err": "Truncated", "expected": expected, "actual": actual}),
        StunParseError::TooLarge { expected, actual } => json!({"ok": false, "err": "TooLarge", "expected": expected, "actual": actual}),
        StunParseError::IntegrityCheckFailed => json!({"ok": false, "err": "IntegrityCheckFailed"}),
        StunParseError::MissingAttribute(t) => json!({"ok": false, "err": "MissingAttribute", "type": t.value()}),
        StunParseError::AttributeAfterIntegrity(t) => json!({"ok": false, "err": "AttributeAfterIntegrity", "type": t.value()}),
        StunParseError::AttributeAfterFingerprint(t) => json!({"ok": false, "err": "AttributeAfterFingerprint", "type": t.value()}),
        StunParseError::FingerprintMismatch => json!({"ok": false, "err": "FingerprintMismatch"}),
        StunParseError::DataMismatch => json!({"ok": false, "err": "DataMismatch"}),
        StunParseError::InvalidAttributeData => json!({"ok": false, "err": "InvalidAttributeData"}),
        StunParseError::WrongAttributeImplementation => json!({"ok": false, "err": "WrongAttributeImplementation"}),
    }
}

pub fn werr(e: &StunWriteError) -> Value {
    match e {
        StunWriteError::AttributeExists(t) => json!({"ok": false, "err": "AttributeExists", "type": t.value()}),
        StunWriteError::FingerprintExists => json!({"ok": false, "err": "FingerprintExists"}),
        StunWriteError::MessageIntegrityExists => json!({"ok": false, "err": "MessageIntegrityExists"}),
        StunWriteError::TooLarge { expected, actual } => json!({"ok": false, "err": "TooLarge", "expected": expected, "actual": actual}),
        StunWriteError::TooSmall { expected, actual } => json!({"ok": false, "err": "TooSmall", "expected": expected, "actual": actual}),
        StunWriteError::IntegrityFailed => json!({"ok": false, "err": "IntegrityFailed"}),
        StunWriteError::OutOfRange { value, min, max } => json!({"ok": false, "err": "OutOfRange", "value": value, "min": min, "max": max}),
    }
}

pub fn guard<F: FnOnce() -> Value>(f: F) -> Value {
    match catch_unwind(AssertUnwindSafe(f)) {
        Ok(v) => v,
        Err(e) => {
            let msg = if let Some(s) = e.downcast_ref::<&str>() {
                s.to_string()
            } else if let Some(s) = e.downcast_ref::<String>() {
                s.clone()
            } else {
                "?".into()
            };
            json!({"panic": msg.chars().take(160).collect::<String>()})
        }
    }
}

pub fn cred_of(v: &Value) -> MessageIntegrityCredentials {
    let s = |k: &str| String::from_utf8(bytes_of(&v[k])).unwrap_or_default();
    if v["kind"].as_str() == Some("long") {
        LongTermCredentials::new(s("user"), s("password"), s("realm")).into()
    } else {
        ShortTermCredentials::new(s("password")).into()
    }
}

pub fn addr_json(a: SocketAddr) -> Value {
    match a {
        SocketAddr::V4(x) => json!({"fam": 1, "ip": x.ip().octets().to_vec(), "port": x.port()}),
        SocketAddr::V6(x) => json!({"fam": 2, "ip": x.ip().octets().to_vec(), "port": x.port()}),
    }
}

/// the matching typed decoder for a raw attribute: fields, re-encodings, formatting
fn enc_of(a: &dyn AttributeWrite) -> Value {
    let raw = a.to_raw();
    let rb = raw.to_bytes();
    let plen = a.padded_len();
    let mut exact = vec![0xAAu8; plen + 8];
    let w = a.write_into(&mut exact);
    let wj = match w {
        Ok(n) => json!({"n": n, "bytes": exact[..n.min(exact.len())].to_vec(), "tail_intact": exact[n.min(exact.len())..].iter().all(|b| *b == 0xAA)}),
        Err(e) => werr(&e),
    };
    let mut short = vec![0xAAu8; plen.saturating_sub(1)];
    let ws = match a.write_into(&mut short) {
        Ok(n) => json!({"n": n}),
        Err(e) => {
            let mut j = werr(&e);
            j["untouched"] = json!(short.iter().all(|b| *b == 0xAA));
            j
        }
    };
    json!({"type": a.get_type().value(), "length": a.length(), "padded_len": plen, "raw_type": raw.get_type().value(),
           "raw_len": raw.length(), "raw_value": raw.value.to_vec(), "raw_bytes": rb, "write": wj, "write_short": ws})
}

pub fn typed(raw: &RawAttribute, tid: TransactionId, with_enc: bool) -> Value {
    macro_rules! dec {
        ($t:ty, $f:expr) => {{
            match <$t>::from_raw(raw) {
                Err(e) => perr(&e),
                Ok(a) => {
                    let mut j: Value = $f(&a);
                    j["ok"] = json!(true);
                    j["display_len"] = json!(format!("{}", a).len());
                    j["debug_len"] = json!(format!("{:?}", a).len());
                    if with_enc {
                        j["enc"] = enc_of(&a);
                        j["eq_self"] = json!(a == a.clone());
                    }
                    j
                }
            }
        }};
    }
    let t = raw.get_type();
    let matching: Value = guard(|| match t {
        Username::TYPE => dec!(Username, |a: &Username| json!({"text": a.username().as_bytes().to_vec(),
            "re": Username::new(a.username()).map(|x| x.to_raw().to_bytes()).ok()})),
        MessageIntegrity::TYPE => dec!(MessageIntegrity, |a: &MessageIntegrity| json!({"hmac": a.hmac().to_vec(),
            "re": MessageIntegrity::new(*a.hmac()).to_raw().to_bytes()})),
        ErrorCode::TYPE => dec!(ErrorCode, |a: &ErrorCode| json!({"code": a.code(), "text": a.reason().as_bytes().to_vec(),
            "re": ErrorCode::new(a.code(), a.reason()).map(|x| x.to_raw().to_bytes()).ok(),
            "re_builder": ErrorCode::builder(a.code()).reason(a.reason()).build().map(|x| x.to_raw().to_bytes()).ok()})),
        UnknownAttributes::TYPE => dec!(UnknownAttributes, |a: &UnknownAttributes| {
            let v = a.to_raw().value.to_vec();
            let list: Vec<u16> = v.chunks(2).map(|c| u16::from_be_bytes([c[0], c[1]])).collect();
            let has_all = list.iter().all(|x| a.has_attribute(AttributeType::new(*x)));
            let lt: Vec<AttributeType> = list.iter().map(|x| AttributeType::new(*x)).collect();
            // membership is the only field accessor of this attribute: it must hold for the encoded 16-bit entries and for
            // nothing else - asked for every type (short lists) or for the types a sloppy search would find (bytes of
            // neighbouring entries read together, halves swapped, one bit away)
            let set: std::collections::BTreeSet<u16> = list.iter().copied().collect();
            let mut cands: Vec<u16> = if list.len() <= 24 { (0..=u16::MAX).collect() } else { vec![] };
            if list.len() > 24 {
                for w in v.windows(2).take(4096) { cands.push(u16::from_be_bytes([w[0], w[1]])); cands.push(u16::from_be_bytes([w[1], w[0]])); }
                for x in list.iter().take(2048) { for b in 0..16 { cands.push(x ^ (1 << b)); } cands.push(x & 0xff); cands.push(x >> 8); }
            }
            let has_extra: Vec<u16> = cands.into_iter().filter(|t| !set.contains(t) && a.has_attribute(AttributeType::new(*t))).take(4).collect();
            // the same list assembled entry by entry (add_attribute keeps an entry it already has: compared for lists without repeats)
            let re_add = if set.len() == list.len() {
                let mut u = UnknownAttributes::new(&[]);
                for t in &lt { u.add_attribute(*t); }
                Some(u.to_raw().to_bytes())
            } else { None };
            json!({"list": list, "has_all": has_all, "has_extra": has_extra, "re_add": re_add, "re": UnknownAttributes::new(&lt).to_raw().to_bytes()})
        }),
        Realm::TYPE => dec!(Realm, |a: &Realm| json!({"text": a.realm().as_bytes().to_vec(),
            "re": Realm::new(a.realm()).map(|x| x.to_raw().to_bytes()).ok()})),
        Nonce::TYPE => dec!(Nonce, |a: &Nonce| json!({"text": a.nonce().as_bytes().to_vec(),
            "re": Nonce::new(a.nonce()).map(|x| x.to_raw().to_bytes()).ok()})),
        MessageIntegritySha256::TYPE => dec!(MessageIntegritySha256, |a: &MessageIntegritySha256| json!({"hmac": a.hmac().to_vec(),
            "re": MessageIntegritySha256::new(a.hmac()).map(|x| x.to_raw().to_bytes()).ok()})),
        PasswordAlgorithm::TYPE => dec!(PasswordAlgorithm, |a: &PasswordAlgorithm| json!({
            "alg": match a.algorithm() { PasswordAlgorithmValue::MD5 => 1, PasswordAlgorithmValue::SHA256 => 2 },
            "re": PasswordAlgorithm::new(a.algorithm()).to_raw().to_bytes()})),
        Userhash::TYPE => dec!(Userhash, |a: &Userhash| json!({"hash": a.hash().to_vec(), "re": Userhash::new(*a.hash()).to_raw().to_bytes()})),
        XorMappedAddress::TYPE => dec!(XorMappedAddress, |a: &XorMappedAddress| json!({"addr": addr_json(a.addr(tid)),
            "re": XorMappedAddress::new(a.addr(tid), tid).to_raw().to_bytes()})),
        PasswordAlgorithms::TYPE => dec!(PasswordAlgorithms, |a: &PasswordAlgorithms| json!({
            "algs": a.algorithms().iter().map(|x| match x { PasswordAlgorithmValue::MD5 => 1, PasswordAlgorithmValue::SHA256 => 2 }).collect::<Vec<u8>>(),
            "re": PasswordAlgorithms::new(a.algorithms()).to_raw().to_bytes()})),
        AlternateDomain::TYPE => dec!(AlternateDomain, |a: &AlternateDomain| json!({"text": a.domain().as_bytes().to_vec(),
            "re": AlternateDomain::new(a.domain()).to_raw().to_bytes()})),
        Software::TYPE => dec!(Software, |a: &Software| json!({"text": a.software().as_bytes().to_vec(),
            "re": Software::new(a.software()).map(|x| x.to_raw().to_bytes()).ok()})),
        AlternateServer::TYPE => dec!(AlternateServer, |a: &AlternateServer| json!({"addr": addr_json(a.server()),
            "re": AlternateServer::new(a.server()).to_raw().to_bytes()})),
        Fingerprint::TYPE => dec!(Fingerprint, |a: &Fingerprint| json!({"fp": a.fingerprint().to_vec(),
            "re": Fingerprint::new(*a.fingerprint()).to_raw().to_bytes()})),
        Priority::TYPE => dec!(Priority, |a: &Priority| json!({"u32": a.priority().to_be_bytes().to_vec(),
            "re": Priority::new(a.priority()).to_raw().to_bytes()})),
        UseCandidate::TYPE => dec!(UseCandidate, |_a: &UseCandidate| json!({"re": UseCandidate::new().to_raw().to_bytes()})),
        IceControlled::TYPE => dec!(IceControlled, |a: &IceControlled| json!({"u64": a.tie_breaker().to_be_bytes().to_vec(),
            "re": IceControlled::new(a.tie_breaker()).to_raw().to_bytes()})),
        IceControlling::TYPE => dec!(IceControlling, |a: &IceControlling| json!({"u64": a.tie_breaker().to_be_bytes().to_vec(),
            "re": IceControlling::new(a.tie_breaker()).to_raw().to_bytes()})),
        _ => json!({"ok": false, "err": "NoBuiltinDecoder"}),
    });
    matching
}

/// every decoder whose type does not match must refuse with WrongAttributeImplementation
pub fn wrong_impl(raw: &RawAttribute) -> Value {
    let t = raw.get_type();
    let mut bad: Vec<Value> = vec![];
    macro_rules! chk {
        ($t:ty) => {{
            if <$t>::TYPE != t {
                let r = catch_unwind(AssertUnwindSafe(|| <$t>::from_raw(raw).map(|_| ())));
                match r {
                    Ok(Err(StunParseError::WrongAttributeImplementation)) => (),
                    Ok(Ok(())) => bad.push(json!({"decoder": <$t>::TYPE.value(), "got": "ok"})),
                    Ok(Err(e)) => bad.push(json!({"decoder": <$t>::TYPE.value(), "got": perr(&e)})),
                    Err(_) => bad.push(json!({"decoder": <$t>::TYPE.value(), "got": "panic"})),
                }
            }
        }};
    }
    chk!(Username); chk!(MessageIntegrity); chk!(ErrorCode); chk!(UnknownAttributes); chk!(Realm); chk!(Nonce);
    chk!(MessageIntegritySha256); chk!(PasswordAlgorithm); chk!(Userhash); chk!(XorMappedAddress);
    chk!(PasswordAlgorithms); chk!(AlternateDomain); chk!(Software); chk!(AlternateServer); chk!(Fingerprint);
    chk!(Priority); chk!(UseCandidate); chk!(IceControlled); chk!(IceControlling);
    json!(bad)
}

/// decoding only (no re-encoding): the matching typed decoder and, if it accepts, formatting of the decoded value
pub fn decode_only(raw: &RawAttribute) -> Value {
    let t = raw.get_type();
    let mut res = json!({"err": "NoBuiltinDecoder"});
    macro_rules! dec {
        ($t:ty) => {{
            if <$t>::TYPE == t {
                res = guard(|| match <$t>::from_raw(raw) {
                    Err(e) => perr(&e),
                    Ok(a) => json!({"ok": true, "fmt_len": format!("{}", a).len() + format!("{:?}", a).len()}),
                });
            }
        }};
    }
    dec!(Username); dec!(MessageIntegrity); dec!(ErrorCode); dec!(UnknownAttributes); dec!(Realm); dec!(Nonce);
    dec!(MessageIntegritySha256); dec!(PasswordAlgorithm); dec!(Userhash); dec!(XorMappedAddress);
    dec!(PasswordAlgorithms); dec!(AlternateDomain); dec!(Software); dec!(AlternateServer); dec!(Fingerprint);
    dec!(Priority); dec!(UseCandidate); dec!(IceControlled); dec!(IceControlling);
    res
}

fn parse_json(b: &[u8]) -> Value {
    let mut main = guard(|| match Message::from_bytes(b) {
        Ok(_) => json!({"ok": true}),
        Err(e) => perr(&e),
    });
    // the other public entry point must give the same answer; reported only when it does not
    let alt = guard(|| match Message::try_from(b) {
        Ok(_) => json!({"ok": true}),
        Err(e) => perr(&e),
    });
    if alt != main && main.is_object() {
        main["alt"] = alt;
    }
    main
}

fn header_json(b: &[u8]) -> Value {
    guard(|| match MessageHeader::from_bytes(b) {
        Ok(h) => {
            let t: u128 = h.transaction_id().into();
            json!({"ok": true, "class": class_name(h.get_type().class()), "method": h.get_type().method(),
                   "length": h.data_length(), "tid": t.to_be_bytes()[4..].to_vec()})
        }
        Err(e) => perr(&e),
    })
}

pub fn observe(case: &Value) -> Value {
    let b = bytes_of(&case["bytes"]);
    let mode_verdict = case["mode"].as_str() == Some("verdict");
    let mut o = json!({});
    o["parse"] = parse_json(&b);
    if mode_verdict {
        return o;
    }
    o["hdr"] = header_json(&b);
    o["typ"] = guard(|| match MessageType::from_bytes(&b) {
        Ok(t) => json!({"ok": true, "class": class_name(t.class()), "method": t.method()}),
        Err(e) => perr(&e),
    });
    // the raw attribute decoder on the same bytes (totality only)
    o["raw"] = guard(|| match RawAttribute::from_bytes(&b) {
        Ok(r) => json!({"ok": true, "type": r.get_type().value(), "len": r.length(), "dbg": format!("{:?}{}", r, r).len()}),
        Err(e) => perr(&e),
    });
    if let Ok(Ok(msg)) = catch_unwind(AssertUnwindSafe(|| Message::from_bytes(&b))) {
        let tid = msg.transaction_id();
        let tv: u128 = tid.into();
        let mut acc = json!({"class": class_name(msg.class()), "method": msg.method(), "tid": tv.to_be_bytes()[4..].to_vec(),
            "cls_consistent": msg.has_class(msg.class()) && msg.has_method(msg.method()) && msg.get_type().class() == msg.class()
                && msg.is_response() == msg.class().is_response()});
        acc["exposed"] = guard(|| {
            json!(msg.iter_attributes().map(|a| json!({"type": a.get_type().value(), "value": a.value.to_vec(), "len": a.length()})).collect::<Vec<_>>())
        });
        // every way the standard library may drive the iterator sees the same sequence as repeated next()
        acc["adaptors"] = guard(|| {
            let key = |a: &RawAttribute| (a.get_type().value(), a.value.to_vec());
            let mut plain = Vec::new();
            let mut it = msg.iter_attributes();
            while let Some(a) = it.next() {
                plain.push(key(&a));
            }
            let exhausted_again = it.next().is_some();
            let n = plain.len();
            let mut bad: Vec<String> = Vec::new();
            if exhausted_again {
                bad.push("next() after None yields again".into());
            }
            for k in 0..=n + 1 {
                let mut it = msg.iter_attributes();
                let got = it.nth(k).map(|a| key(&a));
                if got != plain.get(k).cloned() {
                    bad.push(format!("nth({})", k));
                }
                let rest: Vec<_> = it.map(|a| key(&a)).collect();
                if k < n && rest[..] != plain[k + 1..] {
                    bad.push(format!("after nth({})", k));
                }
                let sk: Vec<_> = msg.iter_attributes().skip(k).map(|a| key(&a)).collect();
                if sk[..] != plain[k.min(n)..] {
                    bad.push(format!("skip({})", k));
                }
                let tk: Vec<_> = msg.iter_attributes().take(k).map(|a| key(&a)).collect();
                if tk[..] != plain[..k.min(n)] {
                    bad.push(format!("take({})", k));
                }
            }
            for st in 1..=3usize {
                let sb: Vec<_> = msg.iter_attributes().step_by(st).map(|a| key(&a)).collect();
                let want: Vec<_> = plain.iter().step_by(st).cloned().collect();
                if sb != want {
                    bad.push(format!("step_by({})", st));
                }
            }
            if msg.iter_attributes().count() != n {
                bad.push("count()".into());
            }
            if msg.iter_attributes().last().map(|a| key(&a)) != plain.last().cloned() {
                bad.push("last()".into());
            }
            if msg.iter_attributes().fold(0usize, |c, _| c + 1) != n {
                bad.push("fold()".into());
            }
            let (lo, hi) = msg.iter_attributes().size_hint();
            if lo > n || hi.map(|h| h < n).unwrap_or(false) {
                bad.push(format!("size_hint() = ({}, {:?}) with {} items", lo, hi, n));
            }
            for t in [0x0008u16, 0x001c, 0x8028] {
                let f = msg.iter_attributes().find(|a| a.get_type().value() == t).map(|a| key(&a));
                if f != plain.iter().find(|x| x.0 == t).cloned() {
                    bad.push(format!("find({})", t));
                }
                if msg.iter_attributes().position(|a| a.get_type().value() == t) != plain.iter().position(|x| x.0 == t) {
                    bad.push(format!("position({})", t));
                }
            }
            json!(bad)
        });
        // lookups: every exposed type, the ending types, some absent ones, and whatever the case asks for
        let mut types: Vec<u16> = msg.iter_attributes().map(|a| a.get_type().value()).collect();
        types.extend([0x0008, 0x001c, 0x8028, 0x0006, 0x8022, 0x7777]);
        if let Some(extra) = case["lookup"].as_array() {
            types.extend(extra.iter().map(|x| x.as_u64().unwrap_or(0) as u16));
        }
        types.sort();
        types.dedup();
        acc["lookup"] = guard(|| {
            json!(types.iter().map(|t| {
                let at = AttributeType::new(*t);
                let r = msg.raw_attribute(at);
                json!({"type": t, "has": msg.has_attribute(at), "found": r.is_some(), "value": r.map(|x| x.value.to_vec())})
            }).collect::<Vec<_>>())
        });
        // typed extraction of every exposed attribute, through attribute::<T>() where first-match applies
        acc["typed"] = guard(|| {
            json!(msg.iter_attributes().map(|a| {
                let mut j = typed(&a, tid, false);
                j["type"] = json!(a.get_type().value());
                j["wrong_impl_bad"] = wrong_impl(&a);
                j
            }).collect::<Vec<_>>())
        });
        acc["typed_first"] = guard(|| {
            macro_rules! first { ($t:ty) => { match msg.attribute::<$t>() { Ok(_) => json!("ok"), Err(e) => perr(&e) } }; }
            json!({"6": first!(Username), "8": first!(MessageIntegrity), "9": first!(ErrorCode), "10": first!(UnknownAttributes),
                   "20": first!(Realm), "21": first!(Nonce), "28": first!(MessageIntegritySha256), "29": first!(PasswordAlgorithm),
                   "30": first!(Userhash), "32": first!(XorMappedAddress), "32770": first!(PasswordAlgorithms),
                   "32771": first!(AlternateDomain), "32802": first!(Software), "32803": first!(AlternateServer),
                   "32808": first!(Fingerprint), "36": first!(Priority), "37": first!(UseCandidate),
                   "32809": first!(IceControlled), "32810": first!(IceControlling)})
        });
        if let Some(creds) = case["creds"].as_array() {
            acc["integrity"] = json!(creds.iter().map(|c| {
                let cr = cred_of(c);
                guard(|| match msg.validate_integrity(&cr) {
                    Ok(IntegrityAlgorithm::Sha1) => json!({"ok": true, "alg": "sha1"}),
                    Ok(IntegrityAlgorithm::Sha256) => json!({"ok": true, "alg": "sha256"}),
                    Err(e) => perr(&e),
                })
            }).collect::<Vec<_>>());
        }
        if let Some(pol) = case["police"].as_array() {
            acc["police"] = json!(pol.iter().map(|p| {
                let sup: Vec<AttributeType> = p[0].as_array().unwrap().iter().map(|x| AttributeType::new(x.as_u64().unwrap() as u16)).collect();
                let req: Vec<AttributeType> = p[1].as_array().unwrap().iter().map(|x| AttributeType::new(x.as_u64().unwrap() as u16)).collect();
                guard(|| match Message::check_attribute_types(&msg, &sup, &req) {
                    None => json!({"verdict": 0}),
                    Some(rb) => {
                        let bytes = rb.build();
                        let mut j = json!({"bytes": bytes.clone()});
                        match Message::from_bytes(&bytes) {
                            Err(e) => j["reparse"] = perr(&e),
                            Ok(r) => {
                                let rt: u128 = r.transaction_id().into();
                                j["reparse"] = json!({"ok": true});
                                j["class"] = json!(class_name(r.class()));
                                j["method"] = json!(r.method());
                                j["tid"] = json!(rt.to_be_bytes()[4..].to_vec());
                                j["verdict"] = match r.attribute::<ErrorCode>() { Ok(e) => json!(e.code()), Err(e) => perr(&e) };
                                j["unknown"] = match r.raw_attribute(UnknownAttributes::TYPE) {
                                    None => json!(null),
                                    Some(u) => json!(u.value.chunks(2).map(|c| if c.len() == 2 { u16::from_be_bytes([c[0], c[1]]) as i64 } else { -1 }).collect::<Vec<i64>>()),
                                };
                                j["unknown_typed_ok"] = json!(r.attribute::<UnknownAttributes>().is_ok() || !r.has_attribute(UnknownAttributes::TYPE));
                                j["builder_has_error_code"] = json!(rb.has_attribute(ErrorCode::TYPE));
                            }
                        }
                        j
                    }
                })
            }).collect::<Vec<_>>());
        }
        if msg.class() == MessageClass::Request {
            // responses derived from the request by the library's helpers
            let describe = |bytes: Vec<u8>| -> Value {
                match Message::from_bytes(&bytes) {
                    Err(e) => perr(&e),
                    Ok(r) => {
                        let rt: u128 = r.transaction_id().into();
                        json!({"hdr": {"class": class_name(r.class()), "method": r.method(), "tid": rt.to_be_bytes()[4..].to_vec()},
                               "code": r.attribute::<ErrorCode>().map(|e| e.code() as i64).unwrap_or(-1),
                               "unknown": r.raw_attribute(UnknownAttributes::TYPE).map(|u| u.value.chunks(2).map(|c| u16::from_be_bytes([c[0], c[1]])).collect::<Vec<u16>>()).unwrap_or_default(),
                               "types": r.iter_attributes().map(|a| a.get_type().value()).collect::<Vec<u16>>()})
                    }
                }
            };
            acc["resp"] = guard(|| {
                let unk = [AttributeType::new(6), AttributeType::new(0x8022), AttributeType::new(0xffff)];
                json!({"success": describe(Message::builder_success(&msg).build()),
                       "bad": describe(Message::bad_request(&msg).build()),
                       "unk": describe(Message::unknown_attributes(&msg, &unk).build()),
                       "unk0": describe(Message::unknown_attributes(&msg, &[]).build())})
            });
        }
        acc["fmt"] = guard(|| json!({"display": format!("{}", msg).len(), "debug": format!("{:?}", msg).len()}));
        o["acc"] = acc;
    }
    // prefixes do not depend on the whole buffer having been accepted
    if let Some(l) = case["cutlist"].as_array() {
        o["cutlist"] = json!(l.iter().map(|n| { let n = (n.as_u64().unwrap_or(0) as usize).min(b.len()); json!({"n": n, "parse": parse_json(&b[..n]), "hdr": header_json(&b[..n])}) }).collect::<Vec<_>>());
    }
    if case["cuts"].as_bool() == Some(true) {
        o["cuts"] = json!((0..b.len()).map(|n| json!({"parse": parse_json(&b[..n]), "hdr": header_json(&b[..n])})).collect::<Vec<_>>());
    }
    o
}

fn has_panic(v: &Value) -> bool {
    match v {
        Value::Object(m) => m.contains_key("panic") || m.values().any(has_panic),
        Value::Array(a) => a.iter().any(has_panic),
        _ => false,
    }
}

/// `stunh codec <cases.ndjson> <out.ndjson> [trace]`
pub fn main_codec(args: &[String]) {
    let inp = std::fs::File::open(&args[0]).expect("cases file");
    let out_path = args[1].clone();
    let mut out = std::io::BufWriter::new(std::fs::File::create(&out_path).expect("out file"));
    let with_trace = args.get(2).map(|s| s == "trace").unwrap_or(false);
    // watchdog: a case that does not terminate is recorded as a hang and the process stops
    let started = Arc::new(AtomicU64::new(0));
    let current = Arc::new(AtomicU64::new(u64::MAX));
    {
        let (started, current, out_path) = (started.clone(), current.clone(), out_path.clone());
        std::thread::spawn(move || loop {
            std::thread::sleep(std::time::Duration::from_millis(500));
            let c = current.load(Ordering::SeqCst);
            let s = started.load(Ordering::SeqCst);
            let now = std::time::SystemTime::now().duration_since(std::time::UNIX_EPOCH).unwrap().as_secs();
            if c != u64::MAX && s != 0 && now > s + 10 {
                let mut f = std::fs::OpenOptions::new().append(true).open(format!("{}.hang", out_path)).or_else(|_| std::fs::File::create(format!("{}.hang", out_path))).unwrap();
                let _ = writeln!(f, "{}", json!({"i": c, "hang": true}));
                std::process::exit(3);
            }
        });
    }
    let subscriber = tracing_subscriber::fmt().with_max_level(tracing::Level::TRACE).with_writer(std::io::sink).finish();
    let dispatch = tracing::Dispatch::new(subscriber);
    for (i, line) in std::io::BufReader::new(inp).lines().enumerate() {
        let line = line.unwrap();
        if line.trim().is_empty() {
            continue;
        }
        let case: Value = serde_json::from_str(&line).expect("case json");
        current.store(i as u64, Ordering::SeqCst);
        started.store(std::time::SystemTime::now().duration_since(std::time::UNIX_EPOCH).unwrap().as_secs(), Ordering::SeqCst);
        let mut o = observe(&case);
        if with_trace {
            // the same again under a TRACE-level subscriber: same answers, still no panic
            // callsites that were first reached without a subscriber have cached "never interested": rebuild
            // the cache under the scoped subscriber so that every event and span of the crates is really evaluated
            let o2 = tracing::dispatcher::with_default(&dispatch, || {
                tracing::callsite::rebuild_interest_cache();
                observe(&case)
            });
            o["traced_same"] = json!(o2 == o);
            o["traced_panic"] = json!(has_panic(&o2));
        }
        o["i"] = json!(i + 1);
        o["any_panic"] = json!(has_panic(&o));
        current.store(u64::MAX, Ordering::SeqCst);
        writeln!(out, "{}", o).unwrap();
    }
    out.flush().unwrap();
}

/// `stunh attrs <cases.ndjson> <out.ndjson>`: cases {type, value, tid}: the matching typed decoder's answer, its
/// re-encodings, and every other decoder's refusal
pub fn main_attrs(args: &[String]) {
    let inp = std::fs::File::open(&args[0]).expect("cases file");
    let mut out = std::io::BufWriter::new(std::fs::File::create(&args[1]).expect("out file"));
    for (i, line) in std::io::BufReader::new(inp).lines().enumerate() {
        let line = line.unwrap();
        if line.trim().is_empty() {
            continue;
        }
        let c: Value = serde_json::from_str(&line).expect("case json");
        let ty = c["type"].as_u64().unwrap() as u16;
        let mut val = bytes_of(&c["value"]);
        // "len": the value repeated up to that many bytes (values beyond the 16-bit length, which only RawAttribute::new
        // can hold, without megabytes of JSON); such cases go through the decoders only
        let oversize = c.get("len").and_then(|x| x.as_u64()).map(|n| n as usize);
        if let Some(n) = oversize {
            let pat = if val.is_empty() { vec![0u8] } else { val.clone() };
            val = pat.iter().cycle().take(n).copied().collect();
        }
        let mut t16 = [0u8; 16];
        t16[4..].copy_from_slice(&bytes_of(&c["tid"]));
        let tid = TransactionId::from(u128::from_be_bytes(t16));
        let raw = RawAttribute::new(AttributeType::new(ty), &val);
        let mut o = json!({"i": i + 1});
        if oversize.is_some() {
            o["dec"] = decode_only(&raw);
            o["wrong_impl_bad"] = guard(|| wrong_impl(&raw));
            o["display_len"] = guard(|| json!(format!("{}", raw).len() + format!("{:?}", raw).len()));
            writeln!(out, "{}", o).unwrap();
            continue;
        }
        o["dec"] = guard(|| typed(&raw, tid, true));
        o["wrong_impl_bad"] = guard(|| wrong_impl(&raw));
        // the raw attribute itself: every serialisation path of the same value
        o["raw"] = guard(|| {
            let rb = raw.to_bytes();
            let plen = raw.padded_len();
            let mut buf = vec![0xAAu8; plen + 8];
            let w = raw.write_into(&mut buf);
            let reparsed = RawAttribute::from_bytes(&rb).map(|r| r.get_type().value() == ty && *r.value == *val && r.length() as usize == val.len()).unwrap_or(false);
            json!({"bytes": rb, "padded_len": plen, "length": raw.length(),
                   "write": match w { Ok(n) => json!({"n": n, "bytes": buf[..n.min(buf.len())].to_vec(), "tail_intact": buf[n.min(buf.len())..].iter().all(|b| *b == 0xAA)}), Err(e) => werr(&e) },
                   "reparsed": reparsed, "display_len": format!("{}", raw).len(), "owned_eq": raw.clone().into_owned() == raw})
        });
        writeln!(out, "{}", o).unwrap();
    }
    out.flush().unwrap();
}

/// `stunh xor <out> <seed> <n>`: XorMappedAddress::new(addr, tid) -> wire -> decode under the same and another id
pub fn main_xor(args: &[String]) {
    use rand::{rngs::StdRng, Rng, SeedableRng};
    let mut out = std::io::BufWriter::new(std::fs::File::create(&args[0]).expect("out"));
    let seed: u64 = args[1].parse().unwrap();
    let n: usize = args[2].parse().unwrap();
    let mut rng = StdRng::seed_from_u64(seed);
    for i in 0..n {
        let tw: u128 = match i % 4 { 0 => 0, 1 => (1u128 << 96) - 1, _ => rng.gen::<u128>() >> 32 };
        let key: u128 = (0x2112_a442u128 << 96) | tw;
        let port: u16 = match i % 7 { 0 => 0, 1 => 0x2112, 2 => 0xffff, _ => rng.gen() };
        let v4: u32 = rng.gen();
        // boundary patterns of the address itself and of its XORed (wire) form
        let a: std::net::SocketAddr = match i % 11 {
            0 => std::net::SocketAddr::from((std::net::Ipv6Addr::from(0xffff_0000_0000u128 | v4 as u128), port)),            // ::ffff:a.b.c.d
            1 => std::net::SocketAddr::from((std::net::Ipv6Addr::from(v4 as u128), port)),                                   // ::a.b.c.d
            2 => std::net::SocketAddr::from((std::net::Ipv6Addr::from(key ^ (0xffff_0000_0000u128 | v4 as u128)), port)),    // wire form reads ::ffff:a.b.c.d
            3 => std::net::SocketAddr::from((std::net::Ipv6Addr::from(key), port)),                                          // wire form all zero
            4 => std::net::SocketAddr::from((std::net::Ipv6Addr::from(!key), port)),                                         // wire form all ones
            5 => std::net::SocketAddr::from((std::net::Ipv4Addr::from(0x2112_a442u32), port)),                               // wire form 0.0.0.0
            _ => { let mut x = crate::gen::rand_addr(&mut rng); x.set_port(port); x }
        };
        let ow: u128 = match i % 3 { 0 => tw ^ 1, 1 => tw ^ (1u128 << 95), _ => rng.gen::<u128>() >> 32 };
        // (ids handed over as 128-bit numbers with bits above the 96 an id has: From<u128> keeps the low 96)
        let wide = |x: u128, k: usize| match k % 5 { 3 => x | (0xffff_ffffu128 << 96), 4 => x | (1u128 << 96), _ => x };
        let (tid, other) = (TransactionId::from(wide(tw, i)), TransactionId::from(wide(ow, i + 1)));
        let x = XorMappedAddress::new(a, tid);
        let raw = x.to_raw();
        let wire = raw.to_bytes();
        let mut wbuf = vec![0u8; x.padded_len()];
        let wn = x.write_into(&mut wbuf).unwrap_or(0);
        let back = XorMappedAddress::from_raw(&raw).map(|y| (y.addr(tid), y.addr(other)));
        let none = json!({"fam": 0, "ip": [], "port": 0});
        let (b1, b2) = match back { Ok((p, q)) => (addr_json(p), addr_json(q)), Err(_) => (none.clone(), none) };
        let aj = addr_json(a);
        // the attribute as constructed (never serialised), and a clone of it, asked directly
        let xc = x.clone();
        let same_direct = xc.addr(tid) == x.addr(tid) && xc.addr(other) == x.addr(other) && xc == x;
        writeln!(out, "{}", json!({"fam": aj["fam"], "ip": aj["ip"], "port": aj["port"], "tid": tw.to_be_bytes()[4..].to_vec(),
            "other_tid": ow.to_be_bytes()[4..].to_vec(), "wire": wire, "back": b1, "back_other": b2,
            "direct": addr_json(x.addr(tid)), "direct_other": addr_json(x.addr(other)), "clone_same": same_direct,
            "write_same": wn == wbuf.len() && wbuf == wire})).unwrap();
    }
    out.flush().unwrap();
}
