//! Adapter between abstract agent scripts (the vocabulary of spec/StunAgent.tla) and the real
//! `StunAgent`.  It executes calls, projects results and the API-visible state to JSON and knows
//! nothing about what the results should be.

use std::collections::{BTreeMap, BTreeSet};
use std::io::{BufRead, Write};
use std::net::SocketAddr;
use std::panic::{catch_unwind, AssertUnwindSafe};
use std::time::{Duration, Instant};

use rand::{rngs::StdRng, Rng, SeedableRng};
use serde_json::{json, Value};

use stun_proto::agent::*;
use stun_types::attribute::*;
use stun_types::message::*;
use stun_types::TransportType;

use crate::ext::{self, CredDesc};

pub struct Universe {
    pub tids: BTreeMap<i64, TransactionId>,
    pub addrs: BTreeMap<String, SocketAddr>,
    pub local: SocketAddr,
    pub keys: BTreeMap<String, MessageIntegrityCredentials>,
    pub descs: BTreeMap<String, CredDesc>,
}

pub fn cred_desc(name: &str, variant: u64) -> CredDesc {
    // variant selects short-term / long-term credentials; the key *identity* is the name
    match variant % 5 {
        // passwords that are prefixes of one another (k3 is empty)
        4 => CredDesc { long: false, user: String::new(), realm: String::new(),
                        password: match name { "k1" => "secret".into(), "k2" => "secret-2".into(), _ => String::new() } },
        // passwords longer than the HMAC block size that share their first 64 bytes
        3 => CredDesc { long: false, user: String::new(), realm: String::new(), password: format!("{}{}", "0123456789abcdef".repeat(4), name) },
        0 => CredDesc { long: false, user: String::new(), realm: String::new(), password: format!("pässword-{name}") },
        1 => CredDesc { long: true, user: format!("user:{name}"), realm: "realm.example".into(), password: format!("pw {name}") },
        // same account (user, realm), the keys differ only in the password
        _ => CredDesc { long: true, user: "shared user".into(), realm: "réalm".into(), password: format!("pw:{name}") },
    }
}
pub fn lib_cred(d: &CredDesc) -> MessageIntegrityCredentials {
    if d.long {
        LongTermCredentials::new(d.user.clone(), d.password.clone(), d.realm.clone()).into()
    } else {
        ShortTermCredentials::new(d.password.clone()).into()
    }
}

impl Universe {
    pub fn new(seed: u64, ntids: i64, cred_variant: u64) -> Self {
        let mut rng = StdRng::seed_from_u64(seed ^ 0x5eed);
        let mut tids = BTreeMap::new();
        let mut seen = BTreeSet::new();
        for i in 0..ntids {
            loop {
                // (in a third of the universes: ids that differ from the first one in a single bit, so that an id compared,
                // hashed or stored by some of its bits only meets another id that agrees on those bits)
                let near = (seed / 4) % 3 == 1 && i > 0 && i <= 8;
                let v: u128 = match (seed.wrapping_add(i as u64)) % 4 {
                    _ if near && tids.contains_key(&0) => {
                        let base: TransactionId = tids[&0];
                        u128::from(base) ^ (1u128 << [95u32, 64, 63, 32, 31, 0, 48, 80][(i as usize - 1) % 8])
                    }
                    0 => i as u128, // small ids incl. 0
                    1 => (1u128 << 96) - 1 - i as u128, // top of the 96-bit range
                    _ => rng.gen::<u128>() & ((1u128 << 96) - 1),
                };
                if seen.insert(v) {
                    tids.insert(i, TransactionId::from(v));
                    break;
                }
            }
        }
        let mut addrs = BTreeMap::new();
        let cands: Vec<SocketAddr> = vec![
            "10.0.0.1:3478".parse().unwrap(),
            "[2001:db8::7]:5349".parse().unwrap(),
            "192.0.2.200:1".parse().unwrap(),
            "[::1]:65535".parse().unwrap(),
            "10.0.0.1:3479".parse().unwrap(), // same ip, other port
            "[::ffff:198.51.100.3]:40000".parse().unwrap(), // IPv4-mapped IPv6
            // the same link-local ip and port on two links (scope ids), and two flow labels: four different socket addresses
            SocketAddr::V6(std::net::SocketAddrV6::new("fe80::1".parse().unwrap(), 3478, 0, 2)),
            SocketAddr::V6(std::net::SocketAddrV6::new("fe80::1".parse().unwrap(), 3478, 0, 3)),
            SocketAddr::V6(std::net::SocketAddrV6::new("fe80::1".parse().unwrap(), 3478, 7, 3)),
        ];
        let nc = cands.len();
        let off = (seed % nc as u64) as usize;
        for i in 0..6 {
            addrs.insert(format!("a{}", i + 1), cands[(i + off) % nc]);
        }
        // a larger population of peers for histories that need many distinct addresses
        for i in 7..=330u16 {
            let a: SocketAddr = if i % 2 == 0 { format!("203.0.{}.{}:{}", 113 + i / 256, i % 256, 1000 + i).parse().unwrap() } else { format!("[2001:db8:1::{:x}]:{}", i, 2000 + i).parse().unwrap() };
            addrs.insert(format!("a{}", i), a);
        }
        addrs.insert("srv".to_string(), "192.0.2.53:3478".parse().unwrap());
        let mut keys = BTreeMap::new();
        let mut descs = BTreeMap::new();
        for k in ["k1", "k2", "k3"] {
            let d = cred_desc(k, cred_variant);
            keys.insert(k.to_string(), lib_cred(&d));
            descs.insert(k.to_string(), d);
        }
        Universe { tids, addrs, local: "127.0.0.1:9000".parse().unwrap(), keys, descs }
    }
    fn tid_index(&self, id: TransactionId) -> Value {
        for (i, t) in &self.tids {
            if *t == id {
                return json!(i);
            }
        }
        json!(format!("unknown:{}", id))
    }
    fn addr_token(&self, a: SocketAddr) -> Value {
        if a == self.local {
            return json!("local");
        }
        for (n, x) in &self.addrs {
            if *x == a {
                return json!(n);
            }
        }
        json!(format!("unknown:{}", a))
    }
    fn key_token(&self, c: &Option<MessageIntegrityCredentials>) -> Value {
        match c {
            None => json!("none"),
            Some(c) => {
                for (n, x) in &self.keys {
                    if x == c {
                        return json!(n);
                    }
                }
                json!("unknown")
            }
        }
    }
}

/// attributes of a message as a function of the payload token (deterministic per seed)
fn payload_attrs(pay: &str, seed: u64) -> Vec<Box<dyn AttributeWrite>> {
    let mut h: u64 = seed ^ 0x9e3779b97f4a7c15;
    for b in pay.bytes() {
        h = h.wrapping_mul(0x100000001b3) ^ b as u64;
    }
    let mut rng = StdRng::seed_from_u64(h);
    let mut v: Vec<Box<dyn AttributeWrite>> = vec![];
    if pay == "pbig" {
        // far more than fits a 16-bit length: nonsense as STUN, but "every transmission is the message handed to send"
        for t in [0x7f10u16, 0x7f11] {
            let val: Vec<u8> = (0..40000).map(|_| rng.gen()).collect();
            v.push(Box::new(RawAttribute::new_owned(AttributeType::new(t), val.into_boxed_slice())));
        }
        return v;
    }
    if let Some(n) = pay.strip_prefix("pmany").and_then(|x| x.parse::<u16>().ok()) {
        // many small attributes in front of whatever seals the message
        for i in 0..n {
            let val: Vec<u8> = (0..(i % 5)).map(|_| rng.gen()).collect();
            v.push(Box::new(RawAttribute::new_owned(AttributeType::new(0xc100 + i), val.into_boxed_slice())));
        }
        return v;
    }
    v.push(Box::new(Software::new(&format!("verif {pay} {}", rng.gen::<u16>())).unwrap()));
    if rng.gen_bool(0.5) {
        v.push(Box::new(Priority::new(rng.gen())));
    }
    if rng.gen_bool(0.5) {
        v.push(Box::new(Username::new(&"u".repeat(rng.gen_range(0..9))).unwrap()));
    }
    if rng.gen_bool(0.3) {
        v.push(Box::new(IceControlling::new(rng.gen())));
    }
    v
}

fn alg_list(s: &str) -> Vec<IntegrityAlgorithm> {
    match s {
        "sha1" => vec![IntegrityAlgorithm::Sha1],
        "sha256" => vec![IntegrityAlgorithm::Sha256],
        "both" => vec![IntegrityAlgorithm::Sha1, IntegrityAlgorithm::Sha256],
        _ => vec![],
    }
}

fn panic_msg(e: Box<dyn std::any::Any + Send>) -> String {
    if let Some(s) = e.downcast_ref::<&str>() {
        s.to_string()
    } else if let Some(s) = e.downcast_ref::<String>() {
        s.clone()
    } else {
        "panic".to_string()
    }
}

struct OwnedTx {
    data: Vec<u8>,
    transport: TransportType,
    from: SocketAddr,
    to: SocketAddr,
}
fn own(tx: Transmit) -> OwnedTx {
    // the transmission as handed out, and again after into_owned() / rebuilt with new_owned(): one value, three routes
    let first = OwnedTx { data: tx.data().to_vec(), transport: tx.transport, from: tx.from, to: tx.to };
    let again = Transmit::new_owned(tx.data().to_vec().into_boxed_slice(), tx.transport, tx.from, tx.to);
    let o = tx.into_owned();
    let same = |x: &Transmit| x.data() == first.data.as_slice() && x.transport == first.transport && x.from == first.from && x.to == first.to;
    if same(&o) && same(&again) && &*o.data == first.data.as_slice() {
        first
    } else {
        // reported as an altered transmission by transmit_json()
        let mut data = first.data.clone();
        data.extend_from_slice(b"<into_owned differs>");
        OwnedTx { data, ..first }
    }
}

struct Run<'u> {
    u: &'u Universe,
    agent: StunAgent,
    transport: TransportType,
    base: Instant,
    scale: u64,
    clock: u64, // abstract units
    seed: u64,
    req_alg: String,
    resp_alg: String,
    resp_cls_toggle: u64,
    install: Option<(u64, u32, u64)>,
    sent: BTreeMap<i64, (String, Vec<u8>)>,
    cancelled: BTreeSet<i64>,
    last_until_ms: Option<i64>,
    // microsecond mode: clock units are microseconds (instants with sub-millisecond parts); configuration values stay in ms
    us: bool,
    seal_ext: bool,
    other_tid_outstanding: bool,
    // client/server exchange mode: datagrams in flight per transaction, network capacity, the server's key
    exchange: bool,
    c2s: BTreeMap<i64, Vec<Vec<u8>>>,
    s2c: BTreeMap<i64, Vec<Vec<u8>>>,
    max_flight: usize,
    server_key: Option<String>,
    last_tx: Option<(i64, Vec<u8>)>,
}

impl<'u> Run<'u> {
    fn unit(&self, n: u64) -> Duration {
        if self.us { Duration::from_micros(n) } else { Duration::from_millis(n) }
    }
    /// a configuration value (always given in milliseconds x scale) as a Duration, and in clock units for the log
    fn cfg_dur(&self, v: u64) -> (Duration, u64) {
        let d = Duration::from_millis(v * self.scale);
        (d, if self.us { v * self.scale * 1000 } else { v * self.scale })
    }
    fn at(&self, units: i64) -> Instant {
        // units may be -1 (probe): one clock unit before the base whatever the scale
        if units < 0 {
            self.base - self.unit(1)
        } else if self.us {
            self.base + self.unit(units as u64)
        } else {
            self.base + self.unit(units as u64 * self.scale)
        }
    }
    fn rel_ms(&self, i: Instant) -> i64 {
        let f = |d: Duration| if self.us { d.as_micros() as i64 } else { d.as_millis() as i64 };
        if i >= self.base {
            f(i - self.base)
        } else {
            -f(self.base - i)
        }
    }
    fn obs(&mut self) -> Value {
        let mut out = vec![];
        let (local, transport) = (self.u.local, self.transport);
        for (i, t) in &self.u.tids {
            // the read-only handle, then the mutable handle and the agent as seen through it: one transaction, one answer
            let ro = self.agent.request_transaction(*t).map(|r| r.peer_address());
            let rw = catch_unwind(AssertUnwindSafe(|| {
                self.agent.mut_request_transaction(*t).map(|mut r| {
                    let p = r.peer_address();
                    let a = (r.agent().local_addr(), r.agent().transport());
                    let b = (r.mut_agent().local_addr(), r.mut_agent().transport());
                    (p, a == (local, transport) && b == (local, transport) && r.peer_address() == p)
                })
            }));
            match (ro, rw) {
                (Some(p), Ok(Some((q, true)))) if p == q => out.push(json!([i, self.u.addr_token(p)])),
                (None, Ok(None)) => {}
                (Some(_), _) => out.push(json!([i, "HANDLES-DISAGREE"])),
                (None, _) => out.push(json!([i, "ONLY-MUTABLE-HANDLE"])),
            }
        }
        let mut val = vec![];
        for (n, a) in &self.u.addrs {
            if self.agent.is_validated_peer(*a) {
                val.push(json!(n));
            }
        }
        if self.agent.is_validated_peer(self.u.local) {
            val.push(json!("local"));
        }
        json!({"out": out, "val": val,
               "rcred": self.u.key_token(&self.agent.remote_credentials()),
               "lcred": self.u.key_token(&self.agent.local_credentials())})
    }
    fn transmit_json(&self, tx: &OwnedTx, expect_tid: Option<i64>, expect: Option<&(String, Vec<u8>)>) -> Value {
        let data = tx.data.as_slice();
        let tid = if data.len() >= 20 {
            let mut b = [0u8; 16];
            b[4..].copy_from_slice(&data[8..20]);
            self.u.tid_index(TransactionId::from(u128::from_be_bytes(b)))
        } else {
            json!("short")
        };
        let (exp, tid) = match (expect, expect_tid) {
            (Some(e), Some(t)) => (Some(e), json!(t)),
            _ => (tid.as_i64().and_then(|t| self.sent.get(&t)), tid),
        };
        let pay = match exp {
            Some((tok, bytes)) if bytes.as_slice() == data => json!(tok),
            Some(_) => json!("ALTERED"),
            None => json!("UNKNOWN"),
        };
        json!({"k": "transmit", "tid": tid, "pay": pay, "from": self.u.addr_token(tx.from), "to": self.u.addr_token(tx.to),
               "tr": if tx.transport == TransportType::Udp { "udp" } else { "tcp" }})
    }
    fn poll_at(&mut self, units: i64) -> Value {
        let at = self.at(units);
        let r = catch_unwind(AssertUnwindSafe(|| self.agent.poll(at)));
        match r {
            Err(e) => json!({"k": "panic", "msg": panic_msg(e)}),
            Ok(StunAgentPollRet::WaitUntil(w)) => {
                let u = self.rel_ms(w);
                self.last_until_ms = Some(u);
                json!({"k": "wait", "until_ms": u})
            }
            Ok(StunAgentPollRet::SendData(tx)) => {
                let o = own(tx);
                let j = self.transmit_json(&o, None, None);
                if let Some(t) = j["tid"].as_i64() {
                    self.last_tx = Some((t, o.data.clone()));
                }
                j
            }
            Ok(StunAgentPollRet::TransactionTimedOut(id)) => json!({"k": "timeout", "tid": self.u.tid_index(id)}),
            Ok(StunAgentPollRet::TransactionCancelled(id)) => json!({"k": "cancelled", "tid": self.u.tid_index(id)}),
        }
    }
    fn step(&mut self, s: &Value) -> Value {
        let a = s["a"].as_str().unwrap_or("");
        let mut ev = s.clone();
        let ret: Value = match a {
            "tick" => {
                self.clock += s["d"].as_u64().unwrap();
                json!({"k": "ok"})
            }
            "tick_wake" => {
                // advance the clock relative to the last WaitUntil the agent returned (early / exact / late polls)
                let d = s["d"].as_u64().unwrap_or(1);
                let target = self.last_until_ms.map(|u| u + s["delta"].as_i64().unwrap_or(0));
                match target {
                    // (in microsecond mode a far wake-up - the idle hour - would leave the 32-bit range of the trace checker)
                    Some(t) if self.us && t > self.clock as i64 && t - (self.clock as i64) < 100_000_000 => {
                        self.clock = t as u64;
                    }
                    Some(t) if !self.us && t > (self.clock * self.scale) as i64 => {
                        self.clock = (t as u64 + self.scale - 1) / self.scale;
                    }
                    _ => self.clock += d,
                }
                json!({"k": "ok"})
            }
            "send" => {
                let cls = s["cls"].as_str().unwrap();
                let to = self.u.addrs[s["to"].as_str().unwrap()];
                let pay = s["pay"].as_str().unwrap().to_string();
                let attrs = payload_attrs(&pay, self.seed);
                let mut now_units = s.get("at").and_then(|x| x.as_i64()).unwrap_or(self.clock as i64);
                if let Some(b) = s.get("back").and_then(|x| x.as_i64()) {
                    // an instant sampled earlier than the one last given to poll (instants need not be monotonic)
                    now_units = (self.clock as i64 - b).max(0);
                }
                ev["now_ms"] = json!(if self.us { now_units } else { now_units * self.scale as i64 });
                if cls == "request" {
                    let ti = s["tid"].as_i64().unwrap();
                    let tid = self.u.tids[&ti];
                    let method = if self.seed % 3 == 0 { 0x0fff } else { BINDING };
                    let mut b = Message::builder(MessageType::from_class_method(MessageClass::Request, method), tid);
                    for at in &attrs {
                        b.add_attribute(at.as_ref()).unwrap();
                    }
                    let sealed = match &s["sealed"] {
                        Value::Bool(true) => self.req_alg.clone(),
                        Value::String(x) => x.clone(),
                        _ => "none".to_string(),
                    };
                    ev["alg"] = json!(sealed);
                    let lc = self.u.keys["k3"].clone();
                    for alg in alg_list(&sealed) {
                        b.add_message_integrity(&lc, alg).unwrap();
                    }
                    if self.seed % 2 == 1 {
                        b.add_fingerprint().unwrap();
                    }
                    let bytes = b.clone().build();
                    // (sometimes the builder is detached from the borrowed attributes, or cloned, after sealing and before it is sent)
                    let b = match self.seed % 5 { 2 => b.into_owned(), 3 => b.clone(), _ => b };
                    let at = self.at(now_units);
                    let r = catch_unwind(AssertUnwindSafe(|| self.agent.send(b, to, at).map(own)));
                    match r {
                        Err(e) => json!({"k": "panic", "msg": panic_msg(e)}),
                        Ok(Err(StunError::AlreadyInProgress)) => json!({"k": "err", "e": "AlreadyInProgress"}),
                        Ok(Err(e)) => json!({"k": "err", "e": format!("{e:?}")}),
                        Ok(Ok(tx)) => {
                            let exp = (pay.clone(), bytes);
                            let mut j = self.transmit_json(&tx, Some(ti), Some(&exp));
                            // does the request as transmitted carry an integrity attribute?
                            j["wire_sealed"] = match Message::from_bytes(&tx.data) {
                                Ok(m) => json!(m.has_attribute(MessageIntegrity::TYPE) || m.has_attribute(MessageIntegritySha256::TYPE)),
                                Err(_) => Value::Null,
                            };
                            self.last_tx = Some((ti, tx.data.clone()));
                            self.sent.insert(ti, exp);
                            self.cancelled.remove(&ti);
                            if let Some((rto, n, last)) = self.install {
                                if let Some(mut r) = self.agent.mut_request_transaction(tid) {
                                    r.configure_timeout(
                                        Duration::from_millis(rto * self.scale),
                                        n,
                                        Duration::from_millis(last * self.scale),
                                    );
                                }
                            }
                            j
                        }
                    }
                } else {
                    let mcls = match cls {
                        "indication" => MessageClass::Indication,
                        "success" => MessageClass::Success,
                        // send_data(): opaque application bytes - here they even look like a request (possibly one with the id
                        // of an outstanding transaction), or like no STUN message at all
                        "data" => MessageClass::Request,
                        _ => MessageClass::Error,
                    };
                    // a fresh id, or (for responses) possibly the id of an outstanding request
                    let outstanding = self.u.tids.values().copied().find(|t| self.agent.request_transaction(*t).is_some());
                    let tid = match (s.get("tid").and_then(|x| x.as_i64()), outstanding) {
                        (Some(ti), _) => self.u.tids[&ti],
                        // e.g. a response to a peer's request that happens to reuse the id of one of ours
                        (None, Some(t)) if self.other_tid_outstanding => t,
                        _ => TransactionId::from(0x7777_0000_1111_2222_3333_4444u128),
                    };
                    let mut b = Message::builder(MessageType::from_class_method(mcls, BINDING), tid);
                    for at in &attrs {
                        b.add_attribute(at.as_ref()).unwrap();
                    }
                    let mut bytes = b.clone().build();
                    let at = self.at(now_units);
                    let r = if cls == "data" {
                        match (self.seed + self.resp_cls_toggle) % 4 {
                            1 => bytes.insert(0, 0x17),          // not STUN at all
                            2 => bytes.truncate(7),               // shorter than a header
                            3 => bytes.clear(),                   // nothing
                            _ => {}
                        }
                        self.resp_cls_toggle += 1;
                        let data = bytes.clone();
                        catch_unwind(AssertUnwindSafe(|| Ok(own(self.agent.send_data(&data, to)))))
                    } else {
                        catch_unwind(AssertUnwindSafe(|| self.agent.send(b, to, at).map(own)))
                    };
                    match r {
                        Err(e) => json!({"k": "panic", "msg": panic_msg(e)}),
                        Ok(Err(e)) => { let e: StunError = e; json!({"k": "err", "e": format!("{e:?}")}) }
                        Ok(Ok(tx)) => {
                            let exp = (pay.clone(), bytes);
                            let mut j = self.transmit_json(&tx, Some(-1), Some(&exp));
                            j.as_object_mut().unwrap().remove("tid");
                            if cls == "data" {
                                // what send_data() puts into its transmission is fixed by no listed property (an agent might
                                // frame the bytes for a stream transport): recorded, never a verdict.  What the call does to
                                // the agent's state is compared like for any other call.
                                let exact = j["pay"] == json!(pay) && j["to"] == s["to"] && j["from"] == json!("local");
                                let tr = if self.transport == TransportType::Udp { "udp" } else { "tcp" };
                                let exact = exact && j["tr"] == json!(tr);
                                j = json!({"k": "transmit", "pay": pay, "to": s["to"], "from": "local", "tr": tr, "data_exact": exact});
                            }
                            j
                        }
                    }
                }
            }
            "recv" => {
                let cls = s["cls"].as_str().unwrap();
                let from = self.u.addrs[s["from"].as_str().unwrap()];
                let ti = s.get("tid").and_then(|x| x.as_i64()).unwrap_or(0);
                let mut tid = self.u.tids.get(&ti).copied().unwrap_or(TransactionId::from(0xabcdefu128));
                if cls != "response" && self.other_tid_outstanding {
                    // a peer's request/indication may carry the id of one of our own outstanding requests
                    if let Some(t) = self.u.tids.values().copied().find(|t| self.agent.request_transaction(*t).is_some()) {
                        tid = t;
                    }
                }
                let mcls = match cls {
                    "response" => {
                        self.resp_cls_toggle += 1;
                        if (self.resp_cls_toggle + self.seed) % 2 == 0 { MessageClass::Success } else { MessageClass::Error }
                    }
                    "request" => MessageClass::Request,
                    _ => MessageClass::Indication,
                };
                // (methods with bits in the first header byte as well: 0x0fff when the requests use it)
                let rmethod = if self.seed % 3 == 0 { 0x0fff } else { BINDING };
                let mut b = Message::builder(MessageType::from_class_method(mcls, rmethod), tid);
                let x = XorMappedAddress::new(from, tid);
                let ec = ErrorCode::new(401, "nope").unwrap();
                if mcls == MessageClass::Error {
                    b.add_attribute(&ec).unwrap();
                } else {
                    b.add_attribute(&x).unwrap();
                }
                let integ = s.get("integ").and_then(|x| x.as_str()).unwrap_or("none").to_string();
                let alg = s.get("alg").and_then(|x| x.as_str()).unwrap_or(&self.resp_alg).to_string();
                ev["alg"] = json!(alg);
                let signer_name: Option<String> = match integ.as_str() {
                    "none" => None,
                    "corrupt" => Some(match self.u.key_token(&self.agent.remote_credentials()).as_str() {
                        Some(k) if self.u.keys.contains_key(k) => k.to_string(),
                        _ => "k1".to_string(),
                    }),
                    k => Some(k.to_string()),
                };
                let with_fp = integ != "corrupt" && (self.seed + self.resp_cls_toggle) % 3 == 0;
                // "corrupt" = an integrity attribute that validates under no key: a flipped HMAC bit, or an
                // attribute of an illegal length (which the parser lets through and validation must refuse)
                let corrupt_style = if integ == "corrupt" { (self.seed + self.resp_cls_toggle) % 9 } else { 0 };
                let mut bytes;
                if corrupt_style >= 6 {
                    // the RIGHT HMAC-SHA256 under the agent's remote key, cut to a length the RFC does not allow (1, 8, 12 bytes):
                    // a prefix comparison would take it
                    let n = [1usize, 8, 12][(corrupt_style - 6) as usize];
                    let key = self.u.descs[signer_name.as_ref().unwrap()].key();
                    bytes = ext::seal(b.build(), &key, true, n);
                } else if corrupt_style >= 1 {
                    let (sha256, n) = [(false, 16usize), (false, 24), (true, 12), (true, 36), (true, 18)][(corrupt_style - 1) as usize];
                    let junk: Vec<u8> = (0..n).map(|i| (i as u8).wrapping_mul(37).wrapping_add(self.seed as u8)).collect();
                    bytes = ext::append_raw_integrity(b.build(), sha256, &junk);
                } else if self.seal_ext {
                    // sealed by the harness itself with RustCrypto primitives (not by the code under test)
                    bytes = b.build();
                    if let Some(k) = &signer_name {
                        let key = self.u.descs[k].key();
                        for al in alg_list(&alg) {
                            bytes = ext::seal(bytes, &key, al == IntegrityAlgorithm::Sha256, 32);
                        }
                    }
                    if with_fp {
                        bytes = ext::fingerprint(bytes);
                    }
                } else {
                    if let Some(k) = &signer_name {
                        let c = self.u.keys[k].clone();
                        for al in alg_list(&alg) {
                            b.add_message_integrity(&c, al).unwrap();
                        }
                    }
                    if with_fp {
                        b.add_fingerprint().unwrap();
                    }
                    bytes = b.build();
                }
                if integ == "corrupt" && corrupt_style == 0 {
                    // flip one bit inside the value of the integrity attribute that will be checked (the last one)
                    let n = bytes.len();
                    let k = 1 + (self.seed as usize + self.resp_cls_toggle as usize) % 16;
                    bytes[n - k] ^= 1 << ((self.seed + self.resp_cls_toggle) % 8);
                }
                match Message::from_bytes(&bytes) {
                    Err(e) => json!({"k": "harness_parse_error", "e": format!("{e:?}")}),
                    Ok(msg) => {
                        // an application may look at the message before the agent does (which peer's key seals it?): read-only
                        // calls on the parsed message, made with every key of the universe, must not change what the agent decides
                        if (self.seed + self.resp_cls_toggle) % 3 != 1 {
                            let _ = catch_unwind(AssertUnwindSafe(|| {
                                for k in self.u.keys.values() {
                                    let _ = msg.validate_integrity(k);
                                }
                                let _ = msg.iter_attributes().count();
                            }));
                        }
                        let r = catch_unwind(AssertUnwindSafe(|| match self.agent.handle_stun(msg, from) {
                            HandleStunReply::Drop => json!({"k": "drop"}),
                            HandleStunReply::StunResponse(m) => {
                                json!({"k": "response", "same": m.transaction_id() == tid})
                            }
                            HandleStunReply::IncomingStun(m) => {
                                json!({"k": "incoming", "same": m.transaction_id() == tid})
                            }
                        }));
                        match r {
                            Err(e) => json!({"k": "panic", "msg": panic_msg(e)}),
                            Ok(v) => v,
                        }
                    }
                }
            }
            "poll" => {
                let units = s.get("at").and_then(|x| x.as_i64()).unwrap_or(self.clock as i64);
                ev["now_ms"] = json!(if units < 0 { -1 } else if self.us { units } else { units * self.scale as i64 });
                self.poll_at(units)
            }
            "cancel" | "cancel_rt" => {
                let ti = s["tid"].as_i64().unwrap();
                let tid = self.u.tids[&ti];
                match self.agent.mut_request_transaction(tid) {
                    None => json!({"k": "none"}),
                    Some(mut r) => {
                        if a == "cancel" {
                            r.cancel();
                            self.cancelled.insert(ti);
                        } else {
                            r.cancel_retransmissions();
                        }
                        json!({"k": "ok"})
                    }
                }
            }
            "configure" => {
                let ti = s["tid"].as_i64().unwrap();
                let tid = self.u.tids[&ti];
                let (rto, n, last) = (s["rto"].as_u64().unwrap(), s["n"].as_u64().unwrap() as u32, s["last"].as_u64().unwrap());
                let ((rto_d, rto_u), (last_d, last_u)) = (self.cfg_dur(rto), self.cfg_dur(last));
                ev["rto_ms"] = json!(rto_u);
                ev["last_ms"] = json!(last_u);
                match self.agent.mut_request_transaction(tid) {
                    None => json!({"k": "none"}),
                    Some(mut r) => {
                        let sc = self.scale;
                        let rr = catch_unwind(AssertUnwindSafe(|| {
                            let _ = sc;
                            r.configure_timeout(rto_d, n, last_d)
                        }));
                        match rr {
                            Ok(()) => json!({"k": "ok"}),
                            Err(e) => json!({"k": "panic", "msg": panic_msg(e)}),
                        }
                    }
                }
            }
            "set_remote" | "set_local" => {
                let key = self.u.keys[s["key"].as_str().unwrap()].clone();
                // directly, or (when a request is outstanding) through the agent reference of that request's mutable handle
                let via = self.u.tids.values().copied().find(|t| self.seed % 2 == 0 && self.agent.request_transaction(*t).is_some());
                match via.and_then(|t| self.agent.mut_request_transaction(t)) {
                    Some(mut r) => {
                        if a == "set_remote" { r.mut_agent().set_remote_credentials(key) } else { r.mut_agent().set_local_credentials(key) }
                    }
                    None => {
                        if a == "set_remote" { self.agent.set_remote_credentials(key) } else { self.agent.set_local_credentials(key) }
                    }
                }
                json!({"k": "ok"})
            }
            "server" => {
                // the network hands one in-flight copy of the request to a stateless server built from the library:
                // parse, police, success response with XOR-MAPPED-ADDRESS, sealed with the server's key, fingerprint
                let ti = s["tid"].as_i64().unwrap();
                let keep = s["keep"].as_bool().unwrap_or(false);
                let q = self.c2s.entry(ti).or_default();
                if q.is_empty() {
                    json!({"k": "harness_no_datagram"})
                } else {
                    let bytes = if keep { q[0].clone() } else { q.remove(0) };
                    let client = self.u.local;
                    let key = self.server_key.as_ref().map(|k| (self.u.keys[k].clone(), self.u.descs[k].clone()));
                    let ext_seal = self.seal_ext;
                    let alg = self.resp_alg.clone();
                    let r = catch_unwind(AssertUnwindSafe(|| -> Result<Vec<u8>, String> {
                        let msg = Message::from_bytes(&bytes).map_err(|e| format!("parse: {e:?}"))?;
                        if !msg.has_class(MessageClass::Request) {
                            return Err("not a request".into());
                        }
                        let supported = [Software::TYPE, Priority::TYPE, Username::TYPE, IceControlling::TYPE, MessageIntegrity::TYPE,
                                         MessageIntegritySha256::TYPE, Fingerprint::TYPE];
                        if let Some(err) = Message::check_attribute_types(&msg, &supported, &[]) {
                            return Ok(err.build());
                        }
                        let mut resp = Message::builder_success(&msg);
                        let x = XorMappedAddress::new(client, msg.transaction_id());
                        resp.add_attribute(&x).map_err(|e| format!("{e:?}"))?;
                        let mut out;
                        if ext_seal {
                            out = resp.build();
                            if let Some((_c, d)) = &key {
                                for al in alg_list(&alg) {
                                    out = ext::seal(out, &d.key(), al == IntegrityAlgorithm::Sha256, 32);
                                }
                            }
                            out = ext::fingerprint(out);
                        } else {
                            if let Some((c, _d)) = &key {
                                for al in alg_list(&alg) {
                                    resp.add_message_integrity(c, al).map_err(|e| format!("{e:?}"))?;
                                }
                            }
                            resp.add_fingerprint().map_err(|e| format!("{e:?}"))?;
                            out = resp.build();
                        }
                        Ok(out)
                    }));
                    match r {
                        Err(e) => json!({"k": "panic", "msg": panic_msg(e)}),
                        Ok(Err(e)) => json!({"k": "server_refused", "why": e}),
                        Ok(Ok(resp)) => {
                            let q = self.s2c.entry(ti).or_default();
                            if q.len() < self.max_flight {
                                q.push(resp);
                            }
                            json!({"k": "server"})
                        }
                    }
                }
            }
            "client_recv" => {
                let ti = s["tid"].as_i64().unwrap();
                let keep = s["keep"].as_bool().unwrap_or(false);
                let q = self.s2c.entry(ti).or_default();
                if q.is_empty() {
                    json!({"k": "harness_no_datagram"})
                } else {
                    let bytes = if keep { q[0].clone() } else { q.remove(0) };
                    let from = self.u.addrs["srv"];
                    let tid = self.u.tids[&ti];
                    match Message::from_bytes(&bytes) {
                        Err(e) => json!({"k": "client_parse_error", "e": format!("{e:?}")}),
                        Ok(msg) => {
                            let xor_ok = msg.attribute::<XorMappedAddress>().map(|x| x.addr(tid) == self.u.local).unwrap_or(false);
                            match catch_unwind(AssertUnwindSafe(|| match self.agent.handle_stun(msg, from) {
                                HandleStunReply::Drop => json!({"k": "drop"}),
                                HandleStunReply::StunResponse(m) => json!({"k": "response", "same": m.transaction_id() == tid, "mapped_ok": xor_ok}),
                                HandleStunReply::IncomingStun(_) => json!({"k": "incoming", "same": false}),
                            })) {
                                Ok(v) => v,
                                Err(e) => json!({"k": "panic", "msg": panic_msg(e)}),
                            }
                        }
                    }
                }
            }
            "lose" => {
                let ti = s["tid"].as_i64().unwrap();
                let q = if s["dir"].as_str() == Some("c2s") { self.c2s.entry(ti).or_default() } else { self.s2c.entry(ti).or_default() };
                if q.is_empty() { json!({"k": "harness_no_datagram"}) } else { q.remove(0); json!({"k": "ok"}) }
            }
            other => json!({"k": "harness_unknown_step", "a": other}),
        };
        if self.exchange {
            if let Some((t, data)) = self.last_tx.take() {
                let q = self.c2s.entry(t).or_default();
                if q.len() < self.max_flight {
                    q.push(data);
                }
            }
            ev["net"] = json!({"c2s": self.u.tids.keys().map(|t| self.c2s.get(t).map_or(0, |q| q.len())).collect::<Vec<_>>(),
                               "s2c": self.u.tids.keys().map(|t| self.s2c.get(t).map_or(0, |q| q.len())).collect::<Vec<_>>()});
        } else {
            self.last_tx = None;
        }
        ev["ret"] = ret;
        ev["clock"] = json!(self.clock);
        ev
    }
}

fn new_run<'u>(u: &'u Universe, script: &Value, transport: TransportType, base: Instant, scale: u64, seed: u64, install: Option<(u64, u32, u64)>) -> Run<'u> {
    let mut agent_b = StunAgent::builder(transport, u.local);
    if let Some(r) = script.get("remote_addr").and_then(|x| x.as_str()) {
        agent_b = agent_b.remote_addr(u.addrs[r]);
    }
    Run {
        u,
        agent: agent_b.build(),
        transport,
        base,
        scale,
        clock: 0,
        seed,
        req_alg: script["req_alg"].as_str().unwrap_or("sha1").to_string(),
        resp_alg: script["resp_alg"].as_str().unwrap_or("sha1").to_string(),
        resp_cls_toggle: 0,
        install,
        sent: BTreeMap::new(),
        cancelled: BTreeSet::new(),
        last_until_ms: None,
        us: script["us"].as_bool().unwrap_or(false),
        seal_ext: script["seal"].as_str() == Some("ext"),
        other_tid_outstanding: script["other_tid"].as_str() == Some("outstanding"),
        exchange: script["exchange"].as_bool().unwrap_or(false),
        c2s: BTreeMap::new(),
        s2c: BTreeMap::new(),
        max_flight: script["max_flight"].as_u64().unwrap_or(2) as usize,
        server_key: script["server_key"].as_str().filter(|k| *k != "none").map(|k| k.to_string()),
        last_tx: None,
    }
}

/// run one script; returns the events
pub fn run_script(script: &Value) -> Vec<Value> {
    let seed = script["seed"].as_u64().unwrap_or(0);
    let ntids = script["ntids"].as_i64().unwrap_or(8);
    let u = Universe::new(seed, ntids + 1, script["cred_variant"].as_u64().unwrap_or(0));
    let transport = if script["transport"].as_str() == Some("tcp") { TransportType::Tcp } else { TransportType::Udp };
    let scale = script["scale"].as_u64().unwrap_or(1);
    let base_ms = script["base_ms"].as_u64().unwrap_or(0);
    let decoys = script["decoys"].as_u64().unwrap_or(0);
    let probe = script["probe"].as_bool().unwrap_or(false);
    let install = script.get("install").and_then(|v| v.as_array()).map(|a| {
        (a[0].as_u64().unwrap(), a[1].as_u64().unwrap() as u32, a[2].as_u64().unwrap())
    });
    // instants far from the real clock, so that a stray Instant::now() cannot agree with the script
    // (base_off_ms < 0 puts the script's origin shortly before the real clock instead: used by C20 so that an
    // ambient clock reading lands inside the script's own time range)
    let base_off = script["base_off_ms"].as_i64().unwrap_or(1_000_000_000);
    let real = Instant::now();
    let base = if base_off >= 0 {
        real + Duration::from_millis(base_off as u64) + Duration::from_millis(base_ms)
    } else {
        real.checked_sub(Duration::from_millis((-base_off) as u64)).unwrap_or(real) + Duration::from_millis(base_ms)
    };
    // other agents created before (the global agent counter differs) and driven alongside
    let mut decoy_agents: Vec<StunAgent> = (0..decoys)
        .map(|i| StunAgent::builder(if i % 2 == 0 { TransportType::Udp } else { TransportType::Tcp }, u.local).build())
        .collect();
    if decoys > 0 {
        // unrelated agents of the same process have already used the same accounts with other passwords
        for d in u.descs.values() {
            let other = CredDesc { password: format!("{} (decoy)", d.password), ..d.clone() };
            let mut m = Message::builder_request(BINDING);
            let _ = m.add_message_integrity(&lib_cred(&other), IntegrityAlgorithm::Sha1);
            let bytes = m.build();
            if let Ok(msg) = Message::from_bytes(&bytes) {
                let _ = msg.validate_integrity(&lib_cred(&other));
            }
        }
    }
    let mut run = new_run(&u, script, transport, base, scale, seed, install);
    // the same history, call by call, in a second live agent of this process (same transaction ids, same instants)
    let mut twin = if script["twin"].as_bool().unwrap_or(false) { Some(new_run(&u, script, transport, base, scale, seed, install)) } else { None };
    let _ = run.transport;
    let mut events = vec![];
    let mut rng = StdRng::seed_from_u64(seed ^ 0xdec0);
    for (i, s) in script["steps"].as_array().unwrap().iter().enumerate() {
        // unrelated agents get unrelated histories at unrelated instants
        for (k, d) in decoy_agents.iter_mut().enumerate() {
            let t = TransactionId::from(rng.gen::<u128>());
            let b = Message::builder(MessageType::from_class_method(MessageClass::Request, BINDING), t);
            let when = Instant::now() + Duration::from_millis(rng.gen_range(0..10_000_000));
            let _ = d.send(b, u.addrs["a1"], when);
            if (i + k) % 2 == 0 {
                let _ = d.poll(when + Duration::from_millis(rng.gen_range(0..100_000)));
            }
            d.set_remote_credentials(u.keys["k2"].clone());
        }
        if let Some(t) = twin.as_mut() {
            let _ = t.step(s);
        }
        let mut ev = run.step(s);
        ev["obs"] = run.obs();
        if probe {
            run.cancelled.retain(|ti| run.agent.request_transaction(run.u.tids[ti]).is_some());
            if run.cancelled.is_empty() {
                let p = run.poll_at(-1);
                ev["probe"] = p;
                ev["obs2"] = run.obs();
            }
        }
        events.push(ev);
    }
    events
}

/// `stunh agent <scripts.ndjson> <out.ndjson>`: one script per input line, one result line per script
pub fn main_agent(args: &[String]) {
    let inp = std::fs::File::open(&args[0]).expect("scripts file");
    let mut out = std::io::BufWriter::new(std::fs::File::create(&args[1]).expect("out file"));
    for line in std::io::BufReader::new(inp).lines() {
        let line = line.unwrap();
        if line.trim().is_empty() {
            continue;
        }
        let script: Value = serde_json::from_str(&line).expect("script json");
        let threaded = script["thread"].as_bool().unwrap_or(false);
        let with_sub = script["subscriber"].as_bool().unwrap_or(false);
        let events = if with_sub {
            // the same script under a TRACE-level tracing subscriber (ambient state a sans-IO agent must not depend on)
            let subscriber = tracing_subscriber::fmt().with_max_level(tracing::Level::TRACE).with_writer(std::io::sink).finish();
            let dispatch = tracing::Dispatch::new(subscriber);
            tracing::dispatcher::with_default(&dispatch, || {
                tracing::callsite::rebuild_interest_cache();
                run_script(&script)
            })
        } else if threaded {
            let sc = script.clone();
            std::thread::spawn(move || run_script(&sc)).join().unwrap_or_else(|_| vec![json!({"ret": {"k": "panic", "msg": "thread"}})])
        } else {
            run_script(&script)
        };
        let res = json!({"id": script["id"], "events": events});
        writeln!(out, "{}", res).unwrap();
    }
    out.flush().unwrap();
}
