//! Generator of realistic messages through the real builder (random subsets of the 19 built-in attribute
//! types, raw unknown attributes with lengths around every padding residue, all sealing combinations, sealed
//! by the library or independently by ext.rs).  Emits cases (bytes + the credentials used + decoys).
use std::io::Write;
use std::net::SocketAddr;

use rand::{rngs::StdRng, seq::SliceRandom, Rng, SeedableRng};
use serde_json::{json, Value};
use stun_types::attribute::*;
use stun_types::message::*;

use crate::agent::lib_cred;
use crate::ext::{self, CredDesc};
use crate::table::class_name;

pub fn rand_utf8(rng: &mut StdRng, nbytes: usize) -> String {
    let pool = ['a', 'Z', '0', ':', ' ', 'é', 'ß', '€', '한', '😀', '\u{7f}', '\u{0}'];
    let mut s = String::new();
    while s.len() < nbytes {
        let c = *pool.choose(rng).unwrap();
        if s.len() + c.len_utf8() <= nbytes {
            s.push(c);
        } else {
            s.push('x');
        }
    }
    s
}

pub fn rand_addr(rng: &mut StdRng) -> SocketAddr {
    let port: u16 = *[0u16, 1, 0x2112, 0xffff, rng.gen()].choose(rng).unwrap();
    if rng.gen_bool(0.5) {
        let ip: [u8; 4] = *[[0, 0, 0, 0], [255, 255, 255, 255], [0x21, 0x12, 0xa4, 0x42], rng.gen()].choose(rng).unwrap();
        SocketAddr::from((ip, port))
    } else {
        let mut ip: [u8; 16] = if rng.gen_bool(0.3) { [0; 16] } else if rng.gen_bool(0.3) { [255; 16] } else { rng.gen() };
        match rng.gen_range(0..10) {
            0 => { ip[..10].fill(0); ip[10] = 0xff; ip[11] = 0xff; }            // IPv4-mapped  ::ffff:a.b.c.d
            1 => { ip[..12].fill(0); }                                          // IPv4-compatible  ::a.b.c.d
            2 => { ip = [0; 16]; ip[15] = 1; }                                  // loopback
            3 => { ip[0] = 0xfe; ip[1] = 0x80; ip[2..8].fill(0); }              // link-local
            _ => {}
        }
        SocketAddr::from((ip, port))
    }
}

/// an address whose XOR-MAPPED-ADDRESS wire form (address XOR magic cookie || transaction id) has a chosen shape
pub fn xor_shaped_addr(rng: &mut StdRng, tid: TransactionId) -> SocketAddr {
    let t: u128 = tid.into();
    let key: [u8; 16] = ((0x2112a442u128 << 96) | t).to_be_bytes();
    let mut wire: [u8; 16] = rng.gen();
    match rng.gen_range(0..4) {
        0 => { wire[..10].fill(0); wire[10] = 0xff; wire[11] = 0xff; }          // the wire form looks IPv4-mapped
        1 => { wire[8..12].copy_from_slice(&[0x80, 0x28, 0x00, 0x04]); }        // ... ends like a FINGERPRINT attribute
        2 => { wire = [0; 16]; }                                                // ... is all zero (address = key)
        _ => { wire[8..12].copy_from_slice(&[0x00, 0x08, 0x00, 0x14]); }        // ... ends like a MESSAGE-INTEGRITY header
    }
    let mut ip = [0u8; 16];
    for i in 0..16 { ip[i] = wire[i] ^ key[i]; }
    SocketAddr::from((ip, rng.gen::<u16>()))
}

/// text with the characters that string-preparation profiles (SASLprep, PRECIS OpaqueString, NFKC, case folding) would map,
/// drop or refuse: the key derivation takes the bytes as they are
pub fn rand_prep_text(rng: &mut StdRng, nchars: usize) -> String {
    let pool = ['a', 'B', ' ', '\u{a0}', '\u{1680}', '\u{2003}', '\u{200a}', '\u{202f}', '\u{205f}', '\u{3000}', '\u{ad}', '\u{200b}',
                '\u{200d}', '\u{feff}', '\u{fb01}', '\u{ff21}', '\u{b2}', '\u{212b}', 'e', '\u{301}', '\u{130}', '\u{df}', '\u{212a}',
                '\t', '\r', '\n', '\u{200f}', '\u{1f600}', '\u{e9}', ':'];
    (0..nchars).map(|_| *pool.choose(rng).unwrap()).collect()
}

/// what a string-preparation step might turn the text into (another key unless the text is unaffected)
pub fn prepped(s: &str, how: usize) -> String {
    match how {
        0 => s.chars().map(|c| if c.is_whitespace() { ' ' } else { c }).collect(),
        1 => s.chars().filter(|c| !matches!(*c, '\u{ad}' | '\u{200b}' | '\u{200d}' | '\u{feff}' | '\u{200f}')).collect(),
        2 => s.to_lowercase(),
        3 => s.trim().to_string(),
        _ => s.replace("e\u{301}", "\u{e9}").replace('\u{fb01}', "fi").replace('\u{ff21}', "A").replace('\u{212b}', "\u{c5}").replace('\u{212a}', "K").replace('\u{b2}', "2"),
    }
}

pub fn rand_cred(rng: &mut StdRng) -> CredDesc {
    let n = |rng: &mut StdRng| *[0usize, 1, 2, 5, 20, 63, 64, 65, 100].choose(rng).unwrap();
    if rng.gen_bool(0.3) {
        let k = |rng: &mut StdRng| *[1usize, 2, 3, 8, 30].choose(rng).unwrap();
        return if rng.gen_bool(0.5) {
            CredDesc { long: false, user: String::new(), realm: String::new(), password: { let x = k(rng); rand_prep_text(rng, x) } }
        } else {
            let (a, b, c) = (k(rng), k(rng), k(rng));
            CredDesc { long: true, user: rand_prep_text(rng, a), realm: rand_prep_text(rng, b), password: rand_prep_text(rng, c) }
        };
    }
    if rng.gen_bool(0.5) {
        CredDesc { long: false, user: String::new(), realm: String::new(), password: { let k = n(rng); rand_utf8(rng, k) } }
    } else {
        let (a, b, c) = (n(rng), n(rng), n(rng));
        let mut realm = rand_utf8(rng, b);
        match rng.gen_range(0..6) {
            0 => realm = format!(" {realm}"),
            1 => realm = format!("{realm} "),
            2 => realm = format!("\"{realm}\""),
            _ => (),
        }
        CredDesc { long: true, user: rand_utf8(rng, a), realm, password: rand_utf8(rng, c) }
    }
}

pub fn cred_json(c: &CredDesc) -> Value {
    if c.long {
        json!({"kind": "long", "user": c.user.as_bytes(), "realm": c.realm.as_bytes(), "password": c.password.as_bytes()})
    } else {
        json!({"kind": "short", "password": c.password.as_bytes()})
    }
}

/// text for the text-valued attributes: mostly arbitrary UTF-8, sometimes text with a shape that some other layer gives a
/// meaning to (quoted strings, line breaks, the RFC 8489 nonce cookie, blank or BOM edges, an upper-case domain)
pub fn rand_text(rng: &mut StdRng, nbytes: usize) -> String {
    if nbytes < 2 || rng.gen_bool(0.7) {
        return rand_utf8(rng, nbytes);
    }
    let shape = rng.gen_range(0..9);
    let (pre, post): (&str, &str) = match shape {
        0 => ("\"", "\""), 1 => ("\"", ""), 2 => ("", "\n"), 3 => ("line\n", ""), 4 => ("obMatJos2", ""), 5 => (" ", " "),
        6 => ("\u{feff}", ""), 7 => ("EXAMPLE.Org", ""), _ => ("", "\r\n"),
    };
    if pre.len() + post.len() > nbytes {
        return rand_utf8(rng, nbytes);
    }
    let core = rand_utf8(rng, nbytes - pre.len() - post.len());
    format!("{pre}{core}{post}")
}

fn len_pick(rng: &mut StdRng, max: usize) -> usize {
    match rng.gen_range(0..10) {
        0 => 0,
        1 => max,
        2 => max.saturating_sub(1),
        3..=5 => rng.gen_range(0..=max.min(9)),
        _ => rng.gen_range(0..=max),
    }
}

/// a random attribute of built-in kind k (0..=15) or a raw unknown attribute; returns (boxed attr, description)
pub fn rand_attr(rng: &mut StdRng, k: usize, tid: TransactionId) -> (Box<dyn AttributeWrite>, Value) {
    match k {
        0 => { let n = len_pick(rng, 513); let s = rand_text(rng, n); (Box::new(Username::new(&s).unwrap()), json!({"t": 6, "text": s.as_bytes()})) }
        1 => { let n = len_pick(rng, 763); let s = rand_text(rng, n); (Box::new(Realm::new(&s).unwrap()), json!({"t": 20, "text": s.as_bytes()})) }
        2 => { let n = len_pick(rng, 763); let s = rand_text(rng, n); (Box::new(Nonce::new(&s).unwrap()), json!({"t": 21, "text": s.as_bytes()})) }
        3 => { let n = len_pick(rng, 763); let s = rand_text(rng, n); (Box::new(Software::new(&s).unwrap()), json!({"t": 32802, "text": s.as_bytes()})) }
        4 => { let n = len_pick(rng, 300); let s = rand_text(rng, n); (Box::new(AlternateDomain::new(&s)), json!({"t": 32771, "text": s.as_bytes()})) }
        5 => { let code = *[300u16, 399, 400, 401, 420, 438, 500, 699, rng.gen_range(300..700)].choose(rng).unwrap(); let n = len_pick(rng, 763); let s = rand_text(rng, n);
               (Box::new(ErrorCode::new(code, &s).unwrap()), json!({"t": 9, "code": code, "text": s.as_bytes()})) }
        6 => { let n = rng.gen_range(0..6);
               // repeated and unsorted entries on purpose
               let pool = [0x0006u16, 0x0024, 0x802a, 0x0006, 0x7f00, 0xffff];
               let l: Vec<u16> = (0..n).map(|_| if rng.gen_bool(0.6) { *pool.choose(rng).unwrap() } else { rng.gen() }).collect();
               let lt: Vec<AttributeType> = l.iter().map(|x| AttributeType::new(*x)).collect();
               (Box::new(UnknownAttributes::new(&lt)), json!({"t": 10, "list": l})) }
        7 => { let a = if rng.gen_bool(0.25) { xor_shaped_addr(rng, tid) } else { rand_addr(rng) }; (Box::new(XorMappedAddress::new(a, tid)), json!({"t": 32, "addr": crate::codec::addr_json(a)})) }
        8 => { let a = rand_addr(rng); (Box::new(AlternateServer::new(a)), json!({"t": 32803, "addr": crate::codec::addr_json(a)})) }
        9 => { let v: u32 = rng.gen(); (Box::new(Priority::new(v)), json!({"t": 36, "u32": v.to_be_bytes().to_vec()})) }
        10 => (Box::new(UseCandidate::new()), json!({"t": 37})),
        11 => { let v: u64 = if rng.gen_bool(0.15) { 0x8028_0004_0000_0000u64 | rng.gen::<u32>() as u64 } else { rng.gen() }; (Box::new(IceControlled::new(v)), json!({"t": 32809, "u64": v.to_be_bytes().to_vec()})) }
        12 => { let v: u64 = if rng.gen_bool(0.15) { 0x8028_0004_0000_0000u64 | rng.gen::<u32>() as u64 } else { rng.gen() }; (Box::new(IceControlling::new(v)), json!({"t": 32810, "u64": v.to_be_bytes().to_vec()})) }
        13 => { let md5 = rng.gen_bool(0.5); let a = if md5 { PasswordAlgorithmValue::MD5 } else { PasswordAlgorithmValue::SHA256 };
                (Box::new(PasswordAlgorithm::new(a)), json!({"t": 29, "alg": if md5 { 1 } else { 2 }})) }
        14 => { let n = rng.gen_range(1..4); let ids: Vec<u8> = (0..n).map(|_| if rng.gen_bool(0.5) { 1 } else { 2 }).collect();
                let l: Vec<PasswordAlgorithmValue> = ids.iter().map(|i| if *i == 1 { PasswordAlgorithmValue::MD5 } else { PasswordAlgorithmValue::SHA256 }).collect();
                (Box::new(PasswordAlgorithms::new(&l)), json!({"t": 32770, "algs": ids})) }
        15 => { let h: [u8; 32] = rng.gen(); (Box::new(Userhash::new(h)), json!({"t": 30, "hash": h.to_vec()})) }
        _ => {
            // raw attribute of an unknown type (comprehension required or optional), any length 0..=763
            let ty: u16 = loop {
                let t: u16 = match rng.gen_range(0..10) {
                    0 => *[0x0000u16, 0x0001, 0x7fff, 0x8000, 0xffff, 0x0002, 0x00ff].choose(rng).unwrap(),   // boundary / reserved type codes
                    1..=5 => rng.gen_range(0x0100..0x7fff),
                    _ => rng.gen_range(0x8100..=0xffff),
                };
                if ![0x8028u16, 0x8022, 0x8023, 0x8029, 0x802a, 0x8002, 0x8003].contains(&t) { break t; }
            };
            let n = len_pick(rng, 763);
            let mut v: Vec<u8> = (0..n).map(|_| rng.gen()).collect();
            if n >= 8 && rng.gen_bool(0.15) {
                // a value that ends like an attribute header (FINGERPRINT, MESSAGE-INTEGRITY, MESSAGE-INTEGRITY-SHA256)
                let h: [u8; 4] = *[[0x80, 0x28, 0, 4], [0, 8, 0, 20], [0, 0x1c, 0, 32]].choose(rng).unwrap();
                let at = n + (4 - n % 4) % 4 - 8;       // so that header + 4 more bytes (value or padding) end the padded attribute
                v[at..at + 4].copy_from_slice(&h);
            }
            (Box::new(RawAttribute::new_owned(AttributeType::new(ty), v.clone().into_boxed_slice())), json!({"t": ty, "raw": v}))
        }
    }
}

pub fn main_gen(args: &[String]) {
    let n: usize = args[0].parse().unwrap();
    let seed: u64 = args[1].parse().unwrap();
    let mut out = std::io::BufWriter::new(std::fs::File::create(&args[2]).expect("out"));
    let maxattrs: usize = args.get(3).and_then(|s| s.parse().ok()).unwrap_or(6);
    // how many of the messages are filled up to the 16-bit length limit with many raw attributes
    let nbig: usize = args.get(4).and_then(|s| s.parse().ok()).unwrap_or(0);
    // how many further messages carry dozens of small attributes (more than any fixed small table holds)
    let nmany: usize = args.get(5).and_then(|s| s.parse().ok()).unwrap_or(0);
    let mut rng = StdRng::seed_from_u64(seed);
    for i in 0..n {
        let class = *[MessageClass::Request, MessageClass::Indication, MessageClass::Success, MessageClass::Error].choose(&mut rng).unwrap();
        let method: u16 = *[0u16, 1, 0x7f, 0x80, 0x7ff, 0x800, 0xfff, rng.gen_range(0..0x1000)].choose(&mut rng).unwrap();
        let tidv: u128 = *[0u128, 1, (1u128 << 96) - 1, rng.gen::<u128>() >> 32].choose(&mut rng).unwrap();
        let tid = TransactionId::from(tidv);
        let extra_attr = UseCandidate::new();
        let mut b = Message::builder(MessageType::from_class_method(class, method), tid);
        let na = rng.gen_range(0..=maxattrs);
        let mut kinds: Vec<usize> = (0..20).collect();
        kinds.shuffle(&mut rng);
        let mut attrs: Vec<(Box<dyn AttributeWrite>, Value)> = kinds.iter().take(na).map(|k| rand_attr(&mut rng, *k, tid)).collect();
        if i < nbig {
            // fill the body with raw attributes of distinct unknown types (length <= 763 each) up to just below the
            // limit that still leaves room for the sealing attributes: 65535 - 24 - 36 - 8 bytes
            attrs.clear();
            let target = 65535usize - 68 - [0usize, 1, 2, 3, 4, 40][i % 6] * 4;
            let mut total = 0usize;
            let mut ty: u16 = 0x7000;
            loop {
                let n = [763usize, 762, 761, 760, 700].choose(&mut rng).copied().unwrap();
                let padded = 4 + (n + 3) / 4 * 4;
                if total + padded > target {
                    let rest = target - total;
                    if rest >= 4 {
                        let n = rest - 4;
                        let v: Vec<u8> = (0..n).map(|_| rng.gen()).collect();
                        attrs.push((Box::new(RawAttribute::new_owned(AttributeType::new(ty), v.clone().into_boxed_slice())), json!({"t": ty, "raw": v})));
                    }
                    break;
                }
                let v: Vec<u8> = (0..n).map(|_| rng.gen()).collect();
                attrs.push((Box::new(RawAttribute::new_owned(AttributeType::new(ty), v.clone().into_boxed_slice())), json!({"t": ty, "raw": v})));
                total += padded;
                ty += 1;
            }
        }
        if i >= nbig && i < nbig + nmany {
            let m = *[17usize, 31, 32, 33, 40, 64, 65, 100, 129, 257].choose(&mut rng).unwrap();
            attrs.truncate(3);
            for j in 0..m as u16 {
                let ty = if j % 2 == 0 { 0x7100 + j } else { 0x9100 + j };
                let n = rng.gen_range(0..13);
                let v: Vec<u8> = (0..n).map(|_| rng.gen()).collect();
                attrs.push((Box::new(RawAttribute::new_owned(AttributeType::new(ty), v.clone().into_boxed_slice())), json!({"t": ty, "raw": v})));
            }
        }
        let mut descs = vec![];
        let mut raws = vec![];
        for (a, d) in &attrs {
            // typed attributes are added as such, unknown ones as raw attributes; sometimes a typed one via its raw form
            let as_raw = rng.gen_bool(0.2);
            if as_raw { raws.push((a.to_raw().into_owned(), d)); } else if b.add_attribute(a.as_ref()).is_ok() { descs.push(json!({"d": d, "as_raw": false})); }
        }
        // (two generated attributes may share a type - two unknown attributes drawn from the same short list of boundary type
        // codes: the builder rightly refuses the second one, which is then not among the attributes the message was built from)
        for (r, d) in raws { if b.add_raw_attribute(r).is_ok() { descs.push(json!({"d": d, "as_raw": true})); } }
        let cred = rand_cred(&mut rng);
        let seal = rng.gen_range(0..8);     // bit0 sha1, bit1 sha256, bit2 fingerprint
        let by_ext = rng.gen_bool(0.5);
        let trunc = if by_ext { *[16usize, 20, 24, 28, 32, 32, 32, 12, 18, 36].choose(&mut rng).unwrap() } else { 32 };
        let unsealed_len = b.byte_len();
        let mut lib_len: Option<usize> = None;
        let bytes = if by_ext {
            let mut v = b.build();
            let key = cred.key();
            // (a peer may seal in the order the builder refuses - SHA-256 first, SHA-1 behind it and hidden by it: the parser
            // takes it, and what is checked is then the SHA-256 attribute, which is correct for the sealing key)
            let sha256_first = seal & 3 == 3 && rng.gen_bool(0.4);
            if sha256_first { v = ext::seal(v, &key, true, trunc); }
            if seal & 1 != 0 { v = ext::seal(v, &key, false, 20); }
            if seal & 2 != 0 && !sha256_first { v = ext::seal(v, &key, true, trunc); }
            if seal & 4 != 0 { v = ext::fingerprint(v); }
            v
        } else {
            let c = lib_cred(&cred);
            if seal & 1 != 0 { b.add_message_integrity(&c, IntegrityAlgorithm::Sha1).unwrap(); }
            if seal & 2 != 0 { b.add_message_integrity(&c, IntegrityAlgorithm::Sha256).unwrap(); }
            if seal & 4 != 0 { b.add_fingerprint().unwrap(); }
            if seal != 0 && rng.gen_bool(0.3) {
                // operations that must be refused on a sealed builder (and leave no trace)
                let _ = b.add_attribute(&extra_attr);
                let _ = b.add_raw_attribute(RawAttribute::new(AttributeType::new(0x7f7f), &[1, 2, 3]));
                if seal & 4 != 0 {
                    let _ = b.add_fingerprint();
                }
                let c2 = lib_cred(&cred);
                let _ = b.add_message_integrity(&c2, IntegrityAlgorithm::Sha1);
            }
            lib_len = Some(b.byte_len());
            let path = rng.gen_range(0..6);
            if path == 0 {
                // detached from the borrowed attributes after everything (sealing included) was added
                b.clone().into_owned().build()
            } else if path == 1 {
                b.clone().build()
            } else if path <= 3 {
                b.build()
            } else {
                // the other serialisation entry point, into a buffer that held something else before
                let mut v = vec![0xa5u8; b.byte_len()];
                match b.write_into(&mut v) {
                    Ok(n) => { v.truncate(n); v }
                    Err(_) => b.build(),
                }
            }
        };
        // alternative credentials: another password, short-vs-long, long-term differing in one component
        let mut others = vec![];
        let mut o = cred.clone(); o.password.push('x'); others.push(o);
        if cred.long {
            let mut o = cred.clone(); o.user.push('u'); others.push(o);
            let mut o = cred.clone(); o.realm.push('r'); others.push(o);
            others.push(CredDesc { long: false, ..cred.clone() });
        } else {
            others.push(CredDesc { long: true, user: "u".into(), realm: "r".into(), password: cred.password.clone() });
        }
        // credentials that a string-preparation step would make equal to the sealing ones
        for how in 0..5 {
            let o = CredDesc { long: cred.long, user: prepped(&cred.user, how), realm: prepped(&cred.realm, how), password: prepped(&cred.password, how) };
            if (o.user != cred.user || o.realm != cred.realm || o.password != cred.password) && others.len() < 6 {
                others.push(o);
            }
        }
        let mut creds = vec![cred_json(&cred)];
        creds.extend(others.iter().map(cred_json));
        writeln!(out, "{}", json!({"id": i, "bytes": bytes, "creds": creds, "gen": {"class": class_name(class), "method": method,
            "tid": tidv.to_be_bytes()[4..].to_vec(), "attrs": descs, "seal": seal, "by_ext": by_ext, "trunc": trunc,
            "unsealed_len": unsealed_len, "byte_len": lib_len}})).unwrap();
    }
    out.flush().unwrap();
}

/// `stunh genpaths <n> <seed> <out>`: random builders; every serialisation path must give the same bytes (C12)
pub fn main_genpaths(args: &[String]) {
    let n: usize = args[0].parse().unwrap();
    let seed: u64 = args[1].parse().unwrap();
    let mut out = std::io::BufWriter::new(std::fs::File::create(&args[2]).expect("out"));
    let mut rng = StdRng::seed_from_u64(seed ^ 0xc12);
    for i in 0..n {
        let class = *[MessageClass::Request, MessageClass::Indication, MessageClass::Success, MessageClass::Error].choose(&mut rng).unwrap();
        let method: u16 = rng.gen_range(0..0x1000);
        let tid = TransactionId::from(rng.gen::<u128>() >> 32);
        let mut b = Message::builder(MessageType::from_class_method(class, method), tid);
        let na = rng.gen_range(0..=7);
        let mut kinds: Vec<usize> = (0..20).collect();
        kinds.shuffle(&mut rng);
        let attrs: Vec<(Box<dyn AttributeWrite>, Value)> = kinds.iter().take(na).map(|k| rand_attr(&mut rng, *k, tid)).collect();
        let mut raws = vec![];
        for (a, _d) in &attrs {
            if rng.gen_bool(0.3) { raws.push(a.to_raw().into_owned()); } else { let _ = b.add_attribute(a.as_ref()); }
        }
        for r in raws { let _ = b.add_raw_attribute(r); }
        let cred = lib_cred(&rand_cred(&mut rng));
        let seal = rng.gen_range(0..8);
        if seal & 1 != 0 { b.add_message_integrity(&cred, IntegrityAlgorithm::Sha1).unwrap(); }
        if seal & 2 != 0 { b.add_message_integrity(&cred, IntegrityAlgorithm::Sha256).unwrap(); }
        if seal & 4 != 0 { b.add_fingerprint().unwrap(); }
        let mut problems: Vec<String> = vec![];
        let r = std::panic::catch_unwind(std::panic::AssertUnwindSafe(|| {
            let mut p: Vec<String> = vec![];
            let bytes = b.build();
            let len = b.byte_len();
            if bytes.len() != len { p.push(format!("build() {} bytes, byte_len() {}", bytes.len(), len)); }
            let mut exact = vec![0xAAu8; len];
            if !matches!(b.write_into(&mut exact), Ok(k) if k == len) || exact != bytes { p.push("write_into(exact) differs".into()); }
            let mut larger = vec![0xAAu8; len + 16];
            if !matches!(b.write_into(&mut larger), Ok(k) if k == len) || larger[..len] != bytes[..] || larger[len..].iter().any(|x| *x != 0xAA) {
                p.push("write_into(len+16) differs or touches bytes beyond the length".into());
            }
            for short in [0usize, 1, 19, 20, 21, len / 2, len.saturating_sub(4), len.saturating_sub(1)] {
                if short >= len { continue; }
                let mut d = vec![0xAAu8; short];
                match b.write_into(&mut d) {
                    Err(StunWriteError::TooSmall { expected, actual }) if expected == len && actual == short && d.iter().all(|x| *x == 0xAA) => (),
                    r => p.push(format!("write_into({short} of {len}) = {:?} or wrote", r.map_err(|e| format!("{e:?}")))),
                }
            }
            if b.clone().build() != bytes { p.push("clone().build() differs".into()); }
            if b.clone().into_owned().build() != bytes { p.push("into_owned().build() differs".into()); }
            p
        }));
        match r { Ok(p) => problems.extend(p), Err(_) => problems.push("panic".into()) }
        writeln!(out, "{}", json!({"id": i, "problems": problems})).unwrap();
    }
    out.flush().unwrap();
}

/// `stunh genops <n> <seed> <out>`: random operation sequences (C11: "random longer ones") on builders of every origin -
/// Message::builder, builder_success / builder_error, bad_request, unknown_attributes, check_attribute_types - over all 19
/// built-in attribute types and raw ones.  Records what the builder answered; the rules are the specification's (TLC judges).
pub fn main_genops(args: &[String]) {
    let n: usize = args[0].parse().unwrap();
    let seed: u64 = args[1].parse().unwrap();
    let mut out = std::io::BufWriter::new(std::fs::File::create(&args[2]).expect("out"));
    let mut rng = StdRng::seed_from_u64(seed ^ 0xc11);
    for i in 0..n {
        // short-term credentials, or long-term ones (whose key derivation an attribute of the message must not influence)
        let cred_desc = if i % 3 == 1 { CredDesc { long: true, user: "genops user".into(), realm: "genops.example".into(), password: "genops key".into() } }
                        else { CredDesc { long: false, user: String::new(), realm: String::new(), password: "genops key".into() } };
        let cred = lib_cred(&cred_desc);
        // a request some of the builders answer (leaked: the helpers tie their result to the message's lifetime)
        let rtid = TransactionId::from(rng.gen::<u128>() >> 32);
        let rmethod: u16 = *[1u16, 0x0fff, 0x0400, rng.gen_range(0..0x1000)].choose(&mut rng).unwrap();
        let mut rb = Message::builder(MessageType::from_class_method(MessageClass::Request, rmethod), rtid);
        let _ = rb.add_raw_attribute(RawAttribute::new(AttributeType::new(0x7e01), &[1, 2, 3]));
        let prio = Priority::new(7);
        let _ = rb.add_attribute(&prio);
        let req_bytes: &'static [u8] = Box::leak(rb.build().into_boxed_slice());
        let req: &'static Message<'static> = Box::leak(Box::new(Message::from_bytes(req_bytes).unwrap()));
        // attributes the sequence may add (kept alive longer than the builder): distinct kinds, plus an ERROR-CODE with an empty
        // reason and a second value of an already chosen kind for the duplicate attempts
        let tid = TransactionId::from(rng.gen::<u128>() >> 32);
        let mut kinds: Vec<usize> = (0..20).collect();
        kinds.shuffle(&mut rng);
        if cred_desc.long {
            // with long-term credentials the attributes RFC 8489 involves in authentication come first: what is sealed and
            // under which key is a function of the credentials alone, whatever USERNAME, REALM, NONCE, USERHASH or
            // PASSWORD-ALGORITHM(S) the message carries (and whatever their values are)
            let lead = *[13usize, 13, 14, 0, 1, 2, 15].choose(&mut rng).unwrap();
            kinds.retain(|k| *k != lead);
            kinds.insert(0, lead);
        }
        let mut pool: Vec<Box<dyn AttributeWrite>> = kinds.iter().take(6).map(|k| rand_attr(&mut rng, *k, tid).0).collect();
        pool.push(Box::new(ErrorCode::new(*[300u16, 420, 699].choose(&mut rng).unwrap(), "").unwrap()));
        pool.push(Box::new(Software::new("another software").unwrap()));
        pool.push(rand_attr(&mut rng, kinds[0], tid).0);
        // an ERROR-CODE whose reason is longer than a decoder takes (if the constructor lets it through): the builder's rules
        // and its serialisation paths (typed writer, raw form after into_owned) do not depend on that
        if i % 5 == 2 {
            let long: String = std::iter::repeat("reason ").take(120).collect();
            if let Ok(e) = ErrorCode::new(500, &long) { pool.push(Box::new(e)); }
        }
        let origin = rng.gen_range(0..7);
        let (start, mut b): (&str, MessageBuilder) = match origin {
            0 => ("builder_success", Message::builder_success(req)),
            1 => ("builder_error", Message::builder_error(req)),
            2 => ("bad_request", Message::bad_request(req)),
            3 => ("unknown_attributes", Message::unknown_attributes(req, &[AttributeType::new(0x7e01), AttributeType::new(0x0024)])),
            4 => match Message::check_attribute_types(req, &[Priority::TYPE], &[]) { Some(x) => ("check_attribute_types (420)", x), None => ("builder", Message::builder(MessageType::from_class_method(MessageClass::Request, 1), tid)) },
            5 => match Message::check_attribute_types(req, &[Priority::TYPE, AttributeType::new(0x7e01)], &[Username::TYPE]) { Some(x) => ("check_attribute_types (400)", x), None => ("builder", Message::builder(MessageType::from_class_method(MessageClass::Request, 1), tid)) },
            _ => ("builder", Message::builder(MessageType::from_class_method(*[MessageClass::Request, MessageClass::Indication, MessageClass::Success, MessageClass::Error].choose(&mut rng).unwrap(), rng.gen_range(0..0x1000)), tid)),
        };
        let initial = b.build();
        let mut probe: Vec<u16> = pool.iter().map(|a| a.get_type().value()).collect();
        probe.extend_from_slice(&[8, 28, 0x8028, 0x8022, 9, 10, 0x7e01, 0]);
        probe.sort();
        probe.dedup();
        let mut ops: Vec<Value> = vec![];
        let nops = rng.gen_range(1..14);
        for _ in 0..nops {
            let before = std::panic::catch_unwind(std::panic::AssertUnwindSafe(|| b.build())).unwrap_or_default();
            let which = rng.gen_range(0..12);
            let mut rec = json!({});
            let res: std::thread::Result<Result<(), StunWriteError>> = match which {
                0..=4 => {
                    let a = pool.choose(&mut rng).unwrap();
                    rec = json!({"op": "add_attribute", "type": a.get_type().value()});
                    if matches!(a.get_type().value(), 8 | 28 | 0x8028) { continue; }     // (documented panics: the exhaustive walk has them)
                    std::panic::catch_unwind(std::panic::AssertUnwindSafe(|| b.add_attribute(a.as_ref())))
                }
                5 | 6 => {
                    let a = pool.choose(&mut rng).unwrap();
                    if matches!(a.get_type().value(), 8 | 28 | 0x8028) { continue; }
                    rec = json!({"op": "add_raw_attribute", "type": a.get_type().value()});
                    // the attribute's own encoding, or - a raw attribute may hold anything - a value the typed decoder of
                    // that type would refuse or read differently (the builder's rules look at types only, and nothing the
                    // builder or the sealing does may depend on the value)
                    let raw = if rng.gen_bool(if cred_desc.long { 0.5 } else { 0.3 }) {
                        let odd: Vec<u8> = match if cred_desc.long { rng.gen_range(0..3) } else { rng.gen_range(0..5) } {
                            0 => vec![0x00, 0x02, 0x00, 0x04, 0xde, 0xad, 0xbe, 0xef],       // reads like PASSWORD-ALGORITHM SHA-256 + parameters
                            1 => vec![0x00, 0x02, 0x00, 0x00, 0x00, 0x00, 0x00, 0x00],
                            2 => vec![0xff, 0xfe, 0x80],                                    // not UTF-8, not padded
                            3 => vec![],
                            _ => (0..rng.gen_range(1..40)).map(|_| rng.gen()).collect(),
                        };
                        RawAttribute::new_owned(a.get_type(), odd.into_boxed_slice())
                    } else { a.to_raw().into_owned() };
                    std::panic::catch_unwind(std::panic::AssertUnwindSafe(|| b.add_raw_attribute(raw)))
                }
                7 => { rec = json!({"op": "add_integrity", "type": 8}); std::panic::catch_unwind(std::panic::AssertUnwindSafe(|| b.add_message_integrity(&cred, IntegrityAlgorithm::Sha1))) }
                8 => { rec = json!({"op": "add_integrity", "type": 28}); std::panic::catch_unwind(std::panic::AssertUnwindSafe(|| b.add_message_integrity(&cred, IntegrityAlgorithm::Sha256))) }
                9 => { rec = json!({"op": "add_fingerprint", "type": 0x8028}); std::panic::catch_unwind(std::panic::AssertUnwindSafe(|| b.add_fingerprint())) }
                10 => { rec = json!({"op": "into_owned", "type": -1}); b = b.into_owned(); Ok(Ok(())) }
                _ => { rec = json!({"op": "clone", "type": -1}); b = b.clone(); Ok(Ok(())) }
            };
            let after = std::panic::catch_unwind(std::panic::AssertUnwindSafe(|| b.build())).unwrap_or_default();
            rec["ok"] = json!(matches!(res, Ok(Ok(()))));
            rec["err"] = match &res { Ok(Ok(())) => json!(""), Ok(Err(e)) => json!(format!("{e:?}")), Err(_) => json!("panic") };
            rec["changed"] = json!(before != after);
            rec["has"] = json!(probe.iter().map(|t| b.has_attribute(AttributeType::new(*t))).collect::<Vec<bool>>());
            ops.push(rec);
        }
        let fin = std::panic::catch_unwind(std::panic::AssertUnwindSafe(|| {
            let bytes = b.build();
            let mut dirty = vec![0x5au8; b.byte_len() + 3];
            let via_write = b.write_into(&mut dirty).ok().map(|k| dirty[..k.min(dirty.len())].to_vec());
            (bytes, b.byte_len(), via_write)
        }));
        let (bytes, blen, via_write) = fin.unwrap_or((vec![], 0, None));
        writeln!(out, "{}", json!({"id": i, "start": start, "initial": initial, "probe": probe, "ops": ops, "bytes": bytes, "byte_len": blen,
            "write_into_same": via_write.as_deref() == Some(&bytes[..]), "creds": [cred_json(&cred_desc)]})).unwrap();
    }
    out.flush().unwrap();
}
