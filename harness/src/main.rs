//! stunh: thin adapter between the TLA+-driven verification machinery in /verif and the real
//! stun-types / stun-proto crates in /repo.  It executes and records; it holds no expectations.
mod agent;
mod tcp;
mod table;
mod codec;
mod ext;
mod gen;
mod builder;
mod pair;
mod tcpx;

fn main() {
    // panics inside the code under test are data (recorded in the output), not noise on stderr
    std::panic::set_hook(Box::new(|_| {}));
    let args: Vec<String> = std::env::args().collect();
    if args.len() < 2 {
        eprintln!("usage: stunh <mode> ...");
        std::process::exit(2);
    }
    match args[1].as_str() {
        "agent" => agent::main_agent(&args[2..]),
        "tcp" => tcp::main_tcp(&args[2..]),
        "table" => table::main_table(&args[2..]),
        "codec" => codec::main_codec(&args[2..]),
        "gen" => gen::main_gen(&args[2..]),
        "genpaths" => gen::main_genpaths(&args[2..]),
        "genops" => gen::main_genops(&args[2..]),
        "attrs" => codec::main_attrs(&args[2..]),
        "builder" => builder::main_builder(&args[2..]),
        "pair" => pair::main_pair(&args[2..]),
        "tcpx" => tcpx::main_tcpx(&args[2..]),
        "xor" => codec::main_xor(&args[2..]),
        "tracetest" => {
            let subscriber = tracing_subscriber::fmt().with_max_level(tracing::Level::TRACE).with_writer(std::io::stderr).finish();
            let dispatch = tracing::Dispatch::new(subscriber);
            let b = [0u8, 1, 0, 1, 0x21, 0x12, 0xa4, 0x42, 1, 1, 1, 1, 1, 1, 1, 1, 1, 1, 1, 1, 7];
            let _ = stun_types::message::Message::from_bytes(&b);
            tracing::dispatcher::with_default(&dispatch, || {
                tracing::callsite::rebuild_interest_cache();
                tracing::warn!("harness event");
                let r = stun_types::message::Message::from_bytes(&b);
                eprintln!("traced result {:?}", r.is_ok());
            });
        }
        "compr" => {
            use std::io::Write;
            let mut out = std::io::BufWriter::new(std::fs::File::create(&args[2]).expect("out"));
            for t in 0..=65535u32 {
                let at = stun_types::attribute::AttributeType::new(t as u16);
                writeln!(out, "{{\"t\":{},\"cr\":{},\"v\":{}}}", t, at.comprehension_required(), at.value() as u32 == t && u16::from(at) as u32 == t).unwrap();
            }
        }
        m => {
            eprintln!("unknown mode {m}");
            std::process::exit(2);
        }
    }
}
