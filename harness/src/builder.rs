//! Adapter for MessageBuilder: walks EVERY operation sequence up to a depth over the labelled transition
//! system dumped by TLC from spec/StunBuilder.tla (prefix-shared: the builder is Clone), performing each
//! operation on the real builder and matching result labels and the observations the LTS states carry
//! (has-vector, byte length).  Label matching only; what the labels should be is decided by TLC.
use std::collections::HashMap;
use std::io::{BufRead, Write};
use std::panic::{catch_unwind, AssertUnwindSafe};

use serde_json::{json, Value};
use stun_types::attribute::*;
use stun_types::message::*;

use crate::codec::{bytes_of, werr};

struct Lts {
    // state key (attrs joined) -> (len, has map, types)
    states: HashMap<String, Value>,
    // (state key, op, kind) -> (res, dst key)
    edges: HashMap<(String, String, String), (Value, String)>,
    kinds: Value,
}

fn key_of(st: &Value) -> String {
    st["attrs"].as_array().unwrap().iter().map(|x| x.as_str().unwrap()).collect::<Vec<_>>().join(",")
}

fn load(path: &str) -> Lts {
    let mut l = Lts { states: HashMap::new(), edges: HashMap::new(), kinds: json!(null) };
    for line in std::io::BufReader::new(std::fs::File::open(path).expect("lts")).lines() {
        let line = line.unwrap();
        if line.starts_with("\"KINDS ") {
            let s: String = serde_json::from_str(&line).unwrap();
            l.kinds = serde_json::from_str(&s[6..]).unwrap();
        } else if line.starts_with("\"EDGE ") {
            let s: String = serde_json::from_str(&line).unwrap();
            let e: Value = serde_json::from_str(&s[5..]).unwrap();
            let (sk, dk) = (key_of(&e["src"]), key_of(&e["dst"]));
            l.states.insert(sk.clone(), e["src"].clone());
            l.states.insert(dk.clone(), e["dst"].clone());
            l.edges.insert((sk, e["act"]["op"].as_str().unwrap().to_string(), e["act"]["kind"].as_str().unwrap().to_string()),
                           (e["act"]["res"].clone(), dk));
        }
    }
    l
}

struct Ctx<'a> {
    lts: &'a Lts,
    typed: &'a HashMap<String, Box<dyn AttributeWrite>>,
    values: &'a HashMap<String, (u16, Vec<u8>)>,
    cred: MessageIntegrityCredentials,
    ops: Vec<(String, String)>,
    scratch: MessageBuilder<'a>,
    nodes: u64,
    mismatches: Vec<Value>,
    canon: HashMap<String, Vec<u8>>,
    visited_full: HashMap<String, bool>,
    state_out: Vec<Value>,
    asis: u64,
}

fn res_json(r: Result<(), StunWriteError>) -> Value {
    match r {
        Ok(()) => json!({"ok": true}),
        Err(e) => werr(&e),
    }
}

impl<'a> Ctx<'a> {
    fn mismatch(&mut self, path: &[(String, String)], prop: &str, what: String) {
        if self.mismatches.len() < 50 {
            self.mismatches.push(json!({"prop": prop, "path": path.iter().map(|(o, k)| format!("{o}({k})")).collect::<Vec<_>>(), "what": what}));
        }
    }

    fn apply(&self, b: &mut MessageBuilder<'a>, op: &str, kind: &str) -> Value {
        let r = catch_unwind(AssertUnwindSafe(|| match op {
            "add_attribute" => res_json(b.add_attribute(self.typed[kind].as_ref())),
            "add_raw_attribute" => {
                let (t, v) = &self.values[kind];
                res_json(b.add_raw_attribute(RawAttribute::new(AttributeType::new(*t), v)))
            }
            "add_integrity" => res_json(b.add_message_integrity(&self.cred, if kind == "MI" { IntegrityAlgorithm::Sha1 } else { IntegrityAlgorithm::Sha256 })),
            "add_fingerprint" => res_json(b.add_fingerprint()),
            _ => json!({"ok": true}),
        }));
        match r {
            Ok(v) => v,
            Err(_) => json!({"ok": false, "err": "panic"}),
        }
    }

    /// everything a state can be asked, once per distinct abstract state
    fn full_observation(&mut self, b: &MessageBuilder<'a>, skey: &str, path: &[(String, String)]) {
        // a panic on any of the serialisation paths is an answer like any other (C12: TooSmall is what a short destination gets)
        let bytes = match catch_unwind(AssertUnwindSafe(|| b.build())) {
            Ok(v) => v,
            Err(_) => {
                self.mismatch(path, "C12", "build() panicked".into());
                vec![]
            }
        };
        let probed = catch_unwind(AssertUnwindSafe(|| Self::serialisation_paths(b, &bytes)));
        let problems = probed.unwrap_or_else(|_| vec!["a serialisation path (byte_len / write_into / clone / into_owned) panicked".to_string()]);
        for p in problems {
            self.mismatch(path, "C12", p);
        }
        self.state_out.push(json!({"state": skey, "bytes": bytes, "types": self.lts.states[skey]["types"], "path_len": path.len()}));
    }

    fn serialisation_paths(b: &MessageBuilder<'a>, bytes: &[u8]) -> Vec<String> {
        let bytes = bytes.to_vec();
        let len = b.byte_len();
        let mut problems = vec![];
        if bytes.len() != len {
            problems.push(format!("build() gives {} bytes, byte_len() says {}", bytes.len(), len));
        }
        let mut exact = vec![0xAAu8; len];
        match b.write_into(&mut exact) {
            Ok(n) if n == len && exact == bytes => (),
            r => problems.push(format!("write_into(exact) = {:?} or different bytes", r.map_err(|e| format!("{e:?}")))),
        }
        let mut larger = vec![0xAAu8; len + 16];
        match b.write_into(&mut larger) {
            Ok(n) if n == len && larger[..len] == bytes[..] && larger[len..].iter().all(|x| *x == 0xAA) => (),
            r => problems.push(format!("write_into(len+16) = {:?}, different bytes, or bytes beyond the length touched", r.map_err(|e| format!("{e:?}")))),
        }
        for short in 0..len {
            let mut d = vec![0xAAu8; short];
            match b.write_into(&mut d) {
                Err(StunWriteError::TooSmall { expected, actual }) if expected == len && actual == short && d.iter().all(|x| *x == 0xAA) => (),
                r => {
                    problems.push(format!("write_into({short} bytes) = {:?} (or the buffer was written to)", r.map_err(|e| format!("{e:?}"))));
                    break;
                }
            }
        }
        if b.clone().build() != bytes {
            problems.push("clone().build() differs".into());
        }
        if b.clone().into_owned().build() != bytes {
            problems.push("into_owned().build() differs".into());
        }
        if b.clone().into_owned().clone().build() != bytes {
            problems.push("into_owned().clone().build() differs".into());
        }
        // each short destination on its own, so that a panic for one size is reported with that size
        for short in 0..len.min(24) {
            let mut d = vec![0xAAu8; short];
            if catch_unwind(AssertUnwindSafe(|| { let _ = b.write_into(&mut d); })).is_err() {
                problems.push(format!("write_into({short} bytes) panicked"));
                break;
            }
        }
        problems
    }

    fn dfs(&mut self, b: &MessageBuilder<'a>, skey: &str, depth: usize, maxdepth: usize, path: &mut Vec<(String, String)>) {
        if !self.visited_full.contains_key(skey) {
            self.visited_full.insert(skey.to_string(), true);
            self.full_observation(b, skey, path);
        }
        if depth == maxdepth {
            return;
        }
        let before = b.build();
        for i in 0..self.ops.len() {
            let (op, kind) = self.ops[i].clone();
            let Some((want, dkey)) = self.lts.edges.get(&(skey.to_string(), op.clone(), kind.clone())).cloned() else { continue };
            self.nodes += 1;
            path.push((op.clone(), kind.clone()));
            let mut nb: MessageBuilder<'a> = match op.as_str() {
                "into_owned" => b.clone().into_owned(),
                // Clone has two methods: clone_from into a builder that already holds other things (another header,
                // other attributes, a fingerprint) must give the same builder as clone
                "clone" if self.nodes % 2 == 1 => {
                    let mut d = self.scratch.clone();
                    d.clone_from(b);
                    d
                }
                _ => b.clone(),
            };
            let got = self.apply(&mut nb, &op, &kind);
            if got["ok"] != want["ok"] || (want["err"] == "panic") != (got["err"] == "panic") {
                self.mismatch(path, "C11", format!("result {got}, specification {want}"));
                // an operation the rules refuse was carried out: is what the builder serialises now still a message the parser
                // reads back (C03 speaks about whatever the builder serialises)?
                if got["ok"] == true {
                    let parsed_back = catch_unwind(AssertUnwindSafe(|| {
                        let bytes = nb.build();
                        match Message::from_bytes(&bytes) {
                            Err(e) => Some(format!("{e:?}")),
                            Ok(_) => None,
                        }
                    }));
                    if let Ok(Some(e)) = parsed_back {
                        self.mismatch(path, "C03", format!("after an operation that should have been refused the builder serialises a message the parser rejects: {e}"));
                    }
                }
                path.pop();
                continue;
            } else if got != want {
                self.asis += 1; // error variant: documented, not demanded by C11
            }
            let dst = &self.lts.states[&dkey];
            // the builder's own queries agree with the abstract list
            for (k, tv) in self.values.iter() {
                let has = nb.has_attribute(AttributeType::new(tv.0));
                if has != dst["has"][k].as_bool().unwrap() {
                    self.mismatch(path, "C11", format!("has_attribute({k}) = {has}, specification {}", dst["has"][k]));
                }
            }
            let present: Vec<AttributeType> = dst["types"].as_array().unwrap().iter().map(|t| AttributeType::new(t.as_u64().unwrap() as u16)).collect();
            let probe = [AttributeType::new(0x7777), AttributeType::new(8), AttributeType::new(0x8028), AttributeType::new(6)];
            let any = nb.has_any_attribute(&probe);
            let want_any = present.iter().find(|t| probe.contains(t)).cloned();
            if any != want_any {
                self.mismatch(path, "C11", format!("has_any_attribute = {any:?}, specification {want_any:?}"));
            }
            if nb.transaction_id() != b.transaction_id() || !nb.has_class(MessageClass::Request) || nb.has_class(MessageClass::Success) {
                self.mismatch(path, "C11", "transaction_id()/has_class() of the builder changed".into());
            }
            let len = nb.byte_len();
            if len as u64 != dst["len"].as_u64().unwrap() {
                self.mismatch(path, "C03", format!("byte_len() = {len}, specification {}", dst["len"]));
            }
            let bytes = nb.build();
            if got["ok"] != true && bytes != before {
                self.mismatch(path, "C11", "a refused operation changed what the builder serialises".into());
            }
            // last sentence of C11: what the builder serialises (here through write_into into a buffer that held
            // something else) is accepted by the parser, exposes the builder's attributes, and its integrity validates
            {
                // (the destination is exact for one node and roomier for the next: the message is what the returned
                //  length delimits)
                let room = if self.nodes % 2 == 0 { 0 } else { 1 + (self.nodes % 13) as usize };
                let mut v = vec![0xa5u8; len + room];
                let wrote = nb.write_into(&mut v);
                let verdict: Result<(), String> = match wrote {
                    Err(e) => Err(format!("write_into(len + {room}) failed: {e:?}")),
                    Ok(n) if n > v.len() => Err(format!("write_into(len + {room}) says it wrote {n} bytes")),
                    Ok(n) => match Message::from_bytes(&v[..n]) {
                        Err(e) => Err(format!("the parser rejects the serialised message: {e:?}")),
                        Ok(m) => {
                            let got: Vec<u16> = m.iter_attributes().map(|a| a.get_type().value()).collect();
                            let want: Vec<u16> = present.iter().map(|t| t.value()).collect();
                            if got != want {
                                Err(format!("parsed back attributes {got:?}, builder holds {want:?}"))
                            } else if (want.contains(&8) || want.contains(&0x1c)) && m.validate_integrity(&self.cred).is_err() {
                                Err("integrity of the serialised message does not validate".to_string())
                            } else {
                                Ok(())
                            }
                        }
                    },
                };
                if let Err(w) = verdict {
                    self.mismatch(path, "C11", w);
                }
            }
            // one serialisation per abstract state, whatever the path (typed or raw, owned or not, cloned or not)
            match self.canon.get(&dkey) {
                None => {
                    self.canon.insert(dkey.clone(), bytes.clone());
                }
                Some(c) if *c != bytes => self.mismatch(path, "C12", format!("bytes differ from those of another path to the same builder state [{dkey}]")),
                _ => (),
            }
            self.dfs(&nb, &dkey, depth + 1, maxdepth, path);
            path.pop();
        }
    }
}

/// `stunh builder <lts file> <out.ndjson> <maxdepth> <alphabet: full|reduced>`
pub fn main_builder(args: &[String]) {
    let lts = load(&args[0]);
    let mut out = std::io::BufWriter::new(std::fs::File::create(&args[1]).expect("out"));
    let maxdepth: usize = args[2].parse().unwrap();
    let alpha = args.get(3).map(|s| s.as_str()).unwrap_or("full");
    let reduced = alpha != "full";
    // concrete attributes from the kind table of the specification
    let mut values: HashMap<String, (u16, Vec<u8>)> = HashMap::new();
    for (k, v) in lts.kinds.as_object().unwrap() {
        values.insert(k.clone(), (v["type"].as_u64().unwrap() as u16, bytes_of(&v["value"])));
    }
    let mut typed: HashMap<String, Box<dyn AttributeWrite>> = HashMap::new();
    for (k, (t, v)) in values.iter() {
        let raw = RawAttribute::new(AttributeType::new(*t), v);
        let a: Box<dyn AttributeWrite> = match *t {
            0x8022 => Box::new(Software::from_raw(&raw).unwrap()),
            0x0024 => Box::new(Priority::from_raw(&raw).unwrap()),
            0x802a => Box::new(IceControlling::from_raw(&raw).unwrap()),
            0x0006 => Box::new(Username::from_raw(&raw).unwrap()),
            0x0008 => Box::new(MessageIntegrity::from_raw(&raw).unwrap()),
            0x001c => Box::new(MessageIntegritySha256::from_raw(&raw).unwrap()),
            0x8028 => Box::new(Fingerprint::from_raw(&raw).unwrap()),
            _ => Box::new(raw.clone().into_owned()),
        };
        typed.insert(k.clone(), a);
    }
    let mut ops: Vec<(String, String)> = vec![];
    let ord: Vec<&str> = match alpha {
        "reduced" => vec!["A", "R", "Z"],
        "reduced2" => vec!["B", "U"],
        _ => vec!["A", "B", "R", "U", "Z"],
    };
    for k in &ord {
        ops.push(("add_attribute".into(), k.to_string()));
        ops.push(("add_raw_attribute".into(), k.to_string()));
    }
    if !reduced {
        for k in ["MI", "MI256", "FP"] {
            ops.push(("add_attribute".into(), k.to_string()));
            ops.push(("add_raw_attribute".into(), k.to_string()));
        }
    }
    ops.push(("add_integrity".into(), "MI".into()));
    ops.push(("add_integrity".into(), "MI256".into()));
    ops.push(("add_fingerprint".into(), "FP".into()));
    ops.push(("into_owned".into(), "-".into()));
    ops.push(("clone".into(), "-".into()));
    let cred: MessageIntegrityCredentials = ShortTermCredentials::new("builder-key 0123456789abcdef0123456789abcdef0123456789abcdef0123456789abcdef0123456789abcdef0123456789abcdef".to_string()).into();
    // the specification serialises a request with method 1 and this transaction id
    let tid = TransactionId::from(u128::from_be_bytes([0, 0, 0, 0, 9, 8, 7, 6, 5, 4, 3, 2, 1, 0, 11, 12]));
    let b0 = Message::builder(MessageType::from_class_method(MessageClass::Request, 1), tid);
    let mut scratch = Message::builder(MessageType::from_class_method(MessageClass::Error, 0x0abc), TransactionId::from(0x5555_6666_7777_8888_9999_aaaau128));
    for k in ["Z", "B", "U"] {
        if let Some(a) = typed.get(k) {
            let _ = scratch.add_attribute(a.as_ref());
        }
    }
    let _ = scratch.add_fingerprint();
    let mut ctx = Ctx { lts: &lts, typed: &typed, values: &values, cred, ops, scratch, nodes: 0, mismatches: vec![], canon: HashMap::new(),
                        visited_full: HashMap::new(), state_out: vec![], asis: 0 };
    let mut path = vec![];
    ctx.dfs(&b0, "", 0, maxdepth, &mut path);
    for s in &ctx.state_out {
        writeln!(out, "{}", s).unwrap();
    }
    for m in &ctx.mismatches {
        writeln!(out, "{}", json!({"mismatch": m})).unwrap();
    }
    writeln!(out, "{}", json!({"summary": {"nodes": ctx.nodes, "states": ctx.visited_full.len(), "asis_error_variants": ctx.asis,
        "maxdepth": maxdepth, "ops": ctx.ops.len()}})).unwrap();
    out.flush().unwrap();
}
