//! Adapter for `TcpBuffer`: executes push/pull scripts and records every pull result.
use std::io::{BufRead, Write};
use std::panic::{catch_unwind, AssertUnwindSafe};

use serde_json::{json, Value};
use stun_proto::agent::TcpBuffer;

fn bytes_of(v: &Value) -> Vec<u8> {
    v.as_array().map(|a| a.iter().map(|x| x.as_u64().unwrap_or(0) as u8).collect()).unwrap_or_default()
}

pub fn run_script(script: &Value) -> Vec<Value> {
    let mut buf = if script["default_ctor"].as_bool().unwrap_or(false) { TcpBuffer::default() } else { TcpBuffer::new() };
    let mut evs = vec![];
    for s in script["steps"].as_array().unwrap() {
        let a = s["a"].as_str().unwrap_or("");
        let ret = match a {
            "push" => {
                let b = bytes_of(&s["bytes"]);
                match catch_unwind(AssertUnwindSafe(|| buf.push_data(&b))) {
                    Ok(()) => json!({"k": "ok"}),
                    Err(_) => json!({"k": "panic"}),
                }
            }
            "pull" => match catch_unwind(AssertUnwindSafe(|| buf.pull_data())) {
                Ok(None) => json!({"k": "none"}),
                Ok(Some(v)) => json!({"k": "frame", "bytes": v}),
                Err(_) => json!({"k": "panic"}),
            },
            _ => json!({"k": "harness_unknown_step"}),
        };
        let mut ev = s.clone();
        ev["ret"] = ret;
        evs.push(ev);
    }
    evs
}

pub fn main_tcp(args: &[String]) {
    let inp = std::fs::File::open(&args[0]).expect("scripts file");
    let mut out = std::io::BufWriter::new(std::fs::File::create(&args[1]).expect("out file"));
    for line in std::io::BufReader::new(inp).lines() {
        let line = line.unwrap();
        if line.trim().is_empty() {
            continue;
        }
        let script: Value = serde_json::from_str(&line).expect("script json");
        let events = run_script(&script);
        writeln!(out, "{}", json!({"id": script["id"], "events": events})).unwrap();
    }
    out.flush().unwrap();
}
