//! Two real `StunAgent`s facing each other over an in-memory datagram network (spec/StunPair.tla).  Each side is
//! client and server at once; a side's "application" answers every request its agent hands up with a success response
//! built from the library's own calls (builder_success, XOR-MAPPED-ADDRESS, optional integrity, fingerprint) and puts
//! it on the wire without going through the agent.  Both sides use the SAME transaction ids.
//! The adapter executes steps and reports what happened; it does not know what should happen.

use std::collections::BTreeMap;
use std::io::{BufRead, Write};
use std::net::SocketAddr;
use std::panic::{catch_unwind, AssertUnwindSafe};
use std::time::{Duration, Instant};

use serde_json::{json, Value};

use stun_proto::agent::*;
use stun_types::attribute::*;
use stun_types::message::*;
use stun_types::TransportType;

use crate::agent::Universe;

struct Side {
    name: &'static str,
    addr: SocketAddr,
    agent: StunAgent,
    resp_key: String,
    // datagrams in flight TOWARDS this side: (kind, tid index) -> queue
    inbox: BTreeMap<(String, i64), Vec<Vec<u8>>>,
}

fn panic_msg(e: Box<dyn std::any::Any + Send>) -> String {
    if let Some(s) = e.downcast_ref::<&str>() {
        s.to_string()
    } else if let Some(s) = e.downcast_ref::<String>() {
        s.clone()
    } else {
        "panic".to_string()
    }
}

struct PairRun<'u> {
    u: &'u Universe,
    sides: Vec<Side>,
    base: Instant,
    scale: u64,
    clock: u64,
    install: (u64, u32, u64),
    max_flight: usize,
    req_alg: IntegrityAlgorithm,
    resp_alg: IntegrityAlgorithm,
    fingerprint: bool,
}

impl<'u> PairRun<'u> {
    fn idx(who: &str) -> usize {
        if who == "a" { 0 } else { 1 }
    }
    fn at(&self) -> Instant {
        self.base + Duration::from_millis(self.clock * self.scale)
    }
    fn tid_index(&self, id: TransactionId) -> i64 {
        self.u.tids.iter().find(|(_, t)| **t == id).map(|(i, _)| *i).unwrap_or(-1)
    }
    fn put(&mut self, to: usize, kind: &str, ti: i64, data: Vec<u8>) {
        let mf = self.max_flight;
        let q = self.sides[to].inbox.entry((kind.to_string(), ti)).or_default();
        if q.len() < mf {
            q.push(data);
        }
    }
    /// a Transmit of side x: checked to be addressed from x to its peer, then put on the wire
    fn transmit(&mut self, x: usize, data: Vec<u8>, from: SocketAddr, to: SocketAddr, transport: TransportType) -> Value {
        let peer = 1 - x;
        let (ti, is_req) = match Message::from_bytes(&data) {
            Ok(m) => (self.tid_index(m.transaction_id()), m.has_class(MessageClass::Request)),
            Err(_) => (-1, false),
        };
        let addressed = from == self.sides[x].addr && to == self.sides[peer].addr && transport == TransportType::Udp;
        if ti >= 0 && is_req && addressed {
            self.put(peer, "req", ti, data);
        }
        json!({"k": "transmit", "tid": ti, "to": self.sides[peer].name, "addressed": addressed, "request": is_req})
    }

    fn step(&mut self, s: &Value) -> Value {
        let op = s["op"].as_str().unwrap_or("");
        let who = s["who"].as_str().unwrap_or("-");
        let x = Self::idx(who);
        let peer = 1 - x;
        match op {
            "tick" => {
                self.clock += s["d"].as_u64().unwrap_or(1);
                json!({"k": "-"})
            }
            "send" => {
                let ti = s["tid"].as_i64().unwrap();
                let tid = self.u.tids[&ti];
                let mut b = Message::builder(MessageType::from_class_method(MessageClass::Request, BINDING), tid);
                let sw = Software::new(if x == 0 { "side a" } else { "side b!" }).unwrap();
                b.add_attribute(&sw).unwrap();
                if s["sealed"].as_bool() == Some(true) {
                    // the key of a request is irrelevant to the client agent: it checks responses
                    b.add_message_integrity(&self.u.keys["k3"], self.req_alg).unwrap();
                }
                if self.fingerprint {
                    b.add_fingerprint().unwrap();
                }
                let to = self.sides[peer].addr;
                let at = self.at();
                let r = catch_unwind(AssertUnwindSafe(|| {
                    self.sides[x].agent.send(b, to, at).map(|tx| (tx.data().to_vec(), tx.from, tx.to, tx.transport))
                }));
                match r {
                    Err(e) => json!({"k": "panic", "msg": panic_msg(e)}),
                    Ok(Err(StunError::AlreadyInProgress)) => json!({"k": "err", "e": "AlreadyInProgress"}),
                    Ok(Err(e)) => json!({"k": "err", "e": format!("{e:?}")}),
                    Ok(Ok((data, from, to, tr))) => {
                        let (rto, n, last) = self.install;
                        if let Some(mut r) = self.sides[x].agent.mut_request_transaction(tid) {
                            r.configure_timeout(Duration::from_millis(rto * self.scale), n, Duration::from_millis(last * self.scale));
                        }
                        self.transmit(x, data, from, to, tr)
                    }
                }
            }
            "poll" => {
                let at = self.at();
                let base = self.base;
                let r = catch_unwind(AssertUnwindSafe(|| match self.sides[x].agent.poll(at) {
                    StunAgentPollRet::WaitUntil(t) => {
                        let ms = t.checked_duration_since(base).map(|d| d.as_millis() as i64).unwrap_or(-1);
                        (json!({"k": "wait", "until_ms": ms}), None)
                    }
                    StunAgentPollRet::TransactionTimedOut(t) => (json!({"k": "timeout", "tid_raw": u128::from(t).to_string()}), None),
                    StunAgentPollRet::TransactionCancelled(t) => (json!({"k": "cancelled", "tid_raw": u128::from(t).to_string()}), None),
                    StunAgentPollRet::SendData(tx) => (json!({"k": "tx"}), Some((tx.data().to_vec(), tx.from, tx.to, tx.transport))),
                }));
                match r {
                    Err(e) => json!({"k": "panic", "msg": panic_msg(e)}),
                    Ok((mut j, None)) => {
                        if let Some(raw) = j.get("tid_raw").and_then(|v| v.as_str()).map(|s| s.parse::<u128>().unwrap()) {
                            j["tid"] = json!(self.tid_index(TransactionId::from(raw)));
                        }
                        j
                    }
                    Ok((_, Some((data, from, to, tr)))) => self.transmit(x, data, from, to, tr),
                }
            }
            "set_remote" => {
                let k = s["key"].as_str().unwrap();
                let c = self.u.keys[k].clone();
                self.sides[x].agent.set_remote_credentials(c);
                json!({"k": "-"})
            }
            "cancel" => {
                let tid = self.u.tids[&s["tid"].as_i64().unwrap()];
                match self.sides[x].agent.mut_request_transaction(tid) {
                    Some(mut r) => {
                        r.cancel();
                        json!({"k": "ok"})
                    }
                    None => json!({"k": "none"}),
                }
            }
            "lose" => {
                let key = (s["kind"].as_str().unwrap().to_string(), s["tid"].as_i64().unwrap());
                match self.sides[x].inbox.get_mut(&key) {
                    Some(q) if !q.is_empty() => {
                        q.remove(0);
                        json!({"k": "-"})
                    }
                    _ => json!({"k": "harness_no_datagram"}),
                }
            }
            "recv_req" | "recv_resp" => {
                let kind = if op == "recv_req" { "req" } else { "resp" };
                let ti = s["tid"].as_i64().unwrap();
                let keep = s["keep"].as_bool().unwrap_or(false);
                let key = (kind.to_string(), ti);
                let data = match self.sides[x].inbox.get_mut(&key) {
                    Some(q) if !q.is_empty() => if keep { q[0].clone() } else { q.remove(0) },
                    _ => return json!({"k": "harness_no_datagram"}),
                };
                let from = self.sides[peer].addr;
                let my_addr = self.sides[x].addr;
                let resp_key = self.sides[x].resp_key.clone();
                let msg = match Message::from_bytes(&data) {
                    Ok(m) => m,
                    Err(e) => return json!({"k": "parse_error", "e": format!("{e:?}")}),
                };
                let tid = msg.transaction_id();
                // what the response says the requester's address is (checked when it is handed up)
                let mapped_ok = msg.attribute::<XorMappedAddress>().map(|a| a.addr(tid) == my_addr).unwrap_or(false);
                let r = catch_unwind(AssertUnwindSafe(|| match self.sides[x].agent.handle_stun(msg, from) {
                    HandleStunReply::Drop => (json!({"k": "drop"}), None),
                    HandleStunReply::StunResponse(m) => (json!({"k": "response", "same": m.transaction_id() == tid, "mapped_ok": mapped_ok}), None),
                    HandleStunReply::IncomingStun(m) => {
                        // the application answers a request
                        let answer = if m.has_class(MessageClass::Request) {
                            match Message::check_attribute_types(&m, &[Software::TYPE, MessageIntegrity::TYPE, MessageIntegritySha256::TYPE, Fingerprint::TYPE], &[]) {
                                Some(err) => Some(err.build()),
                                None => {
                                    let mut rb = Message::builder_success(&m);
                                    let xa = XorMappedAddress::new(from, m.transaction_id());
                                    rb.add_attribute(&xa).unwrap();
                                    Some(rb.build())
                                }
                            }
                        } else {
                            None
                        };
                        (json!({"k": "incoming", "same": m.transaction_id() == tid, "is_request": m.has_class(MessageClass::Request)}), answer)
                    }
                }));
                match r {
                    Err(e) => json!({"k": "panic", "msg": panic_msg(e)}),
                    Ok((j, None)) => j,
                    Ok((j, Some(plain))) => {
                        // seal the answer (rebuilt from its parsed form so that sealing goes through the builder)
                        let sealed = match Message::from_bytes(&plain) {
                            Err(_) => plain.clone(),
                            Ok(pm) => {
                                let mut rb = Message::builder(pm.get_type(), pm.transaction_id());
                                let raws: Vec<RawAttribute> = pm.iter_attributes().map(|a| a.into_owned()).collect();
                                for a in raws.iter() {
                                    rb.add_raw_attribute(a.clone()).unwrap();
                                }
                                if resp_key != "none" {
                                    rb.add_message_integrity(&self.u.keys[&resp_key], self.resp_alg).unwrap();
                                }
                                if self.fingerprint {
                                    rb.add_fingerprint().unwrap();
                                }
                                rb.build()
                            }
                        };
                        self.put(peer, "resp", ti, sealed);
                        j
                    }
                }
            }
            other => json!({"k": "harness_unknown_step", "op": other}),
        }
    }

    fn observe(&self) -> Value {
        let mut o = json!({});
        for (i, sd) in self.sides.iter().enumerate() {
            let peer = &self.sides[1 - i];
            let out: Vec<i64> = self.u.tids.iter().filter(|(_, t)| sd.agent.request_transaction(**t).is_some()).map(|(i, _)| *i).collect();
            let peers_ok = self.u.tids.iter().all(|(_, t)| sd.agent.request_transaction(*t).map(|r| r.peer_address() == peer.addr).unwrap_or(true));
            let rc = match sd.agent.remote_credentials() {
                None => "none".to_string(),
                Some(c) => self.u.keys.iter().find(|(_, v)| **v == c).map(|(k, _)| k.clone()).unwrap_or("unknown".into()),
            };
            let ntids = self.u.tids.len() as i64;
            o[sd.name] = json!({
                "out": out, "peers_ok": peers_ok,
                "val": sd.agent.is_validated_peer(peer.addr),
                "val_other": sd.agent.is_validated_peer(sd.addr) || sd.agent.is_validated_peer("192.0.2.99:9".parse().unwrap()),
                "rcred": rc,
                "req": (0..ntids).map(|t| sd.inbox.get(&("req".to_string(), t)).map_or(0, |q| q.len())).collect::<Vec<_>>(),
                "resp": (0..ntids).map(|t| sd.inbox.get(&("resp".to_string(), t)).map_or(0, |q| q.len())).collect::<Vec<_>>(),
            });
        }
        o
    }
}

pub fn run_pair_script(script: &Value) -> Vec<Value> {
    let seed = script["seed"].as_u64().unwrap_or(0);
    let ntids = script["ntids"].as_i64().unwrap_or(3);
    let u = Universe::new(seed, ntids, script["cred_variant"].as_u64().unwrap_or(0));
    let addrs: [SocketAddr; 2] = match seed % 3 {
        0 => ["10.1.0.1:40001".parse().unwrap(), "10.1.0.2:40002".parse().unwrap()],
        1 => ["[2001:db8::a]:3478".parse().unwrap(), "[2001:db8::b]:3478".parse().unwrap()],
        _ => ["192.0.2.7:5000".parse().unwrap(), "192.0.2.7:5001".parse().unwrap()], // same host, other port
    };
    let alg = |s: Option<&str>| if s == Some("sha256") { IntegrityAlgorithm::Sha256 } else { IntegrityAlgorithm::Sha1 };
    let inst = script["install"].as_array().map(|a| (a[0].as_u64().unwrap(), a[1].as_u64().unwrap() as u32, a[2].as_u64().unwrap())).unwrap_or((1, 1, 1));
    let mk = |name: &'static str, addr: SocketAddr, peer: SocketAddr, rk: &str, with_remote: bool| {
        let mut b = StunAgent::builder(TransportType::Udp, addr);
        if with_remote {
            b = b.remote_addr(peer);
        }
        Side { name, addr, agent: b.build(), resp_key: rk.to_string(), inbox: BTreeMap::new() }
    };
    let with_remote = script["remote_addr"].as_bool().unwrap_or(false);
    let mut run = PairRun {
        u: &u,
        sides: vec![
            mk("a", addrs[0], addrs[1], script["resp_key_a"].as_str().unwrap_or("none"), with_remote),
            mk("b", addrs[1], addrs[0], script["resp_key_b"].as_str().unwrap_or("none"), with_remote),
        ],
        base: Instant::now() + Duration::from_millis(1_000_000_000),
        scale: script["scale"].as_u64().unwrap_or(1),
        clock: 0,
        install: inst,
        max_flight: script["max_flight"].as_u64().unwrap_or(1) as usize,
        req_alg: alg(script["req_alg"].as_str()),
        resp_alg: alg(script["resp_alg"].as_str()),
        fingerprint: script["fingerprint"].as_bool().unwrap_or(false),
    };
    let mut evs = vec![];
    for (i, s) in script["steps"].as_array().unwrap().iter().enumerate() {
        let ret = run.step(s);
        evs.push(json!({"i": i, "lbl": s, "ret": ret, "obs": run.observe(), "clock": run.clock}));
    }
    evs
}

/// `stunh pair <scripts.ndjson> <out.ndjson>`
pub fn main_pair(args: &[String]) {
    let f = std::io::BufReader::new(std::fs::File::open(&args[0]).expect("scripts"));
    let mut out = std::io::BufWriter::new(std::fs::File::create(&args[1]).expect("out"));
    for line in f.lines() {
        let line = line.unwrap();
        if line.trim().is_empty() {
            continue;
        }
        let script: Value = serde_json::from_str(&line).unwrap();
        let evs = match catch_unwind(AssertUnwindSafe(|| run_pair_script(&script))) {
            Ok(e) => e,
            Err(e) => vec![json!({"i": -1, "ret": {"k": "panic", "msg": panic_msg(e)}})],
        };
        writeln!(out, "{}", json!({"id": script["id"], "events": evs})).unwrap();
    }
    out.flush().unwrap();
}
