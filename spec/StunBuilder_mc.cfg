SPECIFICATION Spec
CONSTANTS
  OrdKinds = {"A", "B", "R", "U", "Z"}
  MaxOps = 7
INVARIANTS Ordered Composition
PROPERTIES RefusalRule
VIEW core
CHECK_DEADLOCK FALSE
