------------------------------- MODULE MCXor -------------------------------
(* C13, constructor direction: records {fam, ip, port, tid, wire, back, other_tid, back_other, direct, direct_other} produced by
   XorMappedAddress::new(addr, tid) -> to_raw() -> from_raw() -> addr(tid) / addr(other_tid) are judged here. *)
EXTENDS StunAttrs, TLC, Json, IOUtils
Tab == IF "TABLE" \in DOMAIN IOEnv THEN ndJsonDeserialize(IOEnv.TABLE) ELSE <<>>
Bad(r) ==
  LET f == [addr |-> [fam |-> r.fam, port |-> r.port, ip |-> r.ip]]
      w == Encode(XORMAPPEDADDRESS, f, r.tid) IN
  \/ r.wire # Wire(XORMAPPEDADDRESS, w)                                     \* the RFC 8489 14.2 wire value
  \/ r.back # [fam |-> r.fam, ip |-> r.ip, port |-> r.port]                 \* decodes under the same id to the address put in
  \/ r.back_other # Fields(XORMAPPEDADDRESS, w, r.other_tid).addr           \* under another id: what XOR with that id gives
  \/ (r.fam = 2 /\ r.other_tid # r.tid /\ r.back_other.ip = r.ip)           \* ... which for IPv6 is a different address
  \/ (r.fam = 1 /\ r.back_other.ip # r.ip)                                  \* IPv4 does not depend on the id
  \/ r.direct # [fam |-> r.fam, ip |-> r.ip, port |-> r.port]               \* the same answers from the attribute as constructed,
  \/ r.direct_other # Fields(XORMAPPEDADDRESS, w, r.other_tid).addr         \* never serialised, and from its clone
  \/ ~r.clone_same
  \/ ~r.write_same
BadIdx == {i \in 1..Len(Tab) : Bad(Tab[i])}
ASSUME PrintT("JUDGED " \o ToString(Len(Tab)))
ASSUME \A i \in BadIdx : PrintT("MISMATCH " \o ToString(i))
VARIABLE x
Init == x = 0
Next == UNCHANGED x
=============================================================================
