SPECIFICATION Spec
CONSTANTS
  Tids = {1}
  Keys = {"k1", "k2"}
  None = "none"
  Corrupt = "corrupt"
  Udp = TRUE
  DefSched <- Sched_1
  DefLast = 1
  IdleWait = 3600
  RespKeyA = "k1"
  RespKeyB = "none"
  RemoteKeys = {"k1"}
  SealedOpts = {TRUE, FALSE}
  MaxTime = 2
  TickSet = {1}
  MaxDup = 1
  MaxLoss = 1
  MaxFlight = 1
  CancelOn = TRUE
INVARIANTS AtMostOnce BoundedTransmissions GhostAgrees ValidatedIffAccepted OnlyThePeer
PROPERTIES PeerRequestsHarmless ResponsesAreLocal LateDropped NoUnauthenticatedCompletion
VIEW core
CHECK_DEADLOCK FALSE
