------------------------------ MODULE MCAgent ------------------------------
(***************************************************************************)
(* Model-checking wrapper of StunAgent: owns the clock, bounds the         *)
(* arguments, keeps a ghost record per transaction that is computed from   *)
(* the OBSERVABLE events only (act), and states C05 C06 C07 C15 C18 over   *)
(* it.  The same module dumps the labelled transition system (Emit).       *)
(***************************************************************************)
EXTENDS StunAgent, TLC, Json

CONSTANTS
  MaxTime,     \* the clock runs 0..MaxTime
  TickSet,     \* allowed clock increments
  ToAddrs,     \* destinations used by send
  FromAddrs,   \* source addresses of received messages
  SealedOpts,  \* subset of BOOLEAN
  IntegOpts,   \* subset of Keys \cup {None, Corrupt}
  CfgIds,      \* indices into CfgTable
  RemoteKeys,  \* keys given to set_remote_credentials
  LocalKeys,   \* keys given to set_local_credentials
  OtherCls,    \* classes for SendOther
  InCls,       \* classes for HandleIncoming
  CancelOps,   \* subset of {"cancel", "cancel_rt"}
  Horizon      \* instants 0..Horizon are examined by the timing invariants

\* schedules selectable from a .cfg (a .cfg cannot contain tuples)
Sched_none == <<>>
Sched_1    == <<1>>
Sched_12   == <<1, 2>>
Sched_2    == <<2>>
Sched_real == <<1, 2, 4, 8, 16, 32>>      \* the code's default in units of 500 ms

\* configure_timeout arguments <<rto, retransmits, last>>
CfgTable == << <<1, 0, 1>>, <<1, 1, 1>>, <<1, 2, 2>>, <<2, 1, 1>>, <<1, 1, 0>>, <<2, 0, 3>>, <<3, 2, 1>> >>

VARIABLES
  now,         \* the clock
  g            \* ghost: per transaction id, what the events so far say about it

mcvars == <<vars, now, g>>
core   == <<out, validated, rcred, lcred, now, g>>

GClosed == [st |-> "closed"]
MCInit == Init /\ now = 0 /\ g = [t \in Tids |-> GClosed]

IsReqTransmit(a) == a.name = "send" /\ a.cls = "request" /\ a.reply.k = "transmit"
PollOf(a, t)     == a.name = "poll" /\ a.reply.k # "wait" /\ a.reply.tid = t
Completes(a, t)  == \/ PollOf(a, t) /\ a.reply.k \in {"timeout", "cancelled"}
                    \/ a.name = "recv" /\ a.cls = "response" /\ a.tid = t /\ a.reply.k = "response"

\* ghost update: a function of the previous ghost and the observed call only
UpdG(gg, a) ==
  [t \in Tids |->
     IF IsReqTransmit(a) /\ a.tid = t
       THEN [st |-> "open", ntx |-> 1, lastTx |-> a.now, to |-> a.to, pay |-> a.pay, sealed |-> a.sealed,
             dflt |-> TRUE, rto |-> 0, n |-> 0, last |-> 0, crt |-> FALSE, cc |-> FALSE]
     ELSE IF Completes(a, t) THEN GClosed
     ELSE IF gg[t].st = "closed" THEN gg[t]
     ELSE IF PollOf(a, t) /\ a.reply.k = "transmit"
       THEN [gg[t] EXCEPT !.ntx = @ + 1, !.lastTx = a.now]
     ELSE IF a.name = "configure" /\ a.tid = t /\ a.reply.k = "ok"
       THEN [gg[t] EXCEPT !.dflt = FALSE, !.rto = a.rto, !.n = a.n, !.last = a.last]
     ELSE IF a.name = "cancel_rt" /\ a.tid = t /\ a.reply.k = "ok" THEN [gg[t] EXCEPT !.crt = TRUE]
     ELSE IF a.name = "cancel" /\ a.tid = t /\ a.reply.k = "ok" THEN [gg[t] EXCEPT !.crt = TRUE, !.cc = TRUE]
     ELSE gg[t]]

Tick(d) == /\ now + d <= MaxTime
           /\ now' = now + d
           /\ act' = [name |-> "tick", d |-> d]
           /\ UNCHANGED state

Calls ==
  \/ \E t \in Tids, a \in ToAddrs, s \in SealedOpts, p \in Payloads : SendRequest(t, a, s, p, now)
  \/ \E c \in OtherCls, a \in ToAddrs, p \in Payloads : SendOther(c, a, p)
  \/ ("data" \in OtherCls /\ \E a \in ToAddrs, p \in Payloads : SendData(a, p))
  \/ \E t \in Tids, a \in FromAddrs, i \in IntegOpts : HandleResponse(t, a, i)
  \/ \E c \in InCls, a \in FromAddrs : HandleIncoming(c, a)
  \/ Poll(now)
  \/ \E t \in Tids : ("cancel" \in CancelOps /\ Cancel(t)) \/ ("cancel_rt" \in CancelOps /\ CancelRetrans(t))
  \/ \E t \in Tids, c \in CfgIds : Configure(t, CfgTable[c][1], CfgTable[c][2], CfgTable[c][3])
  \/ \E k \in RemoteKeys : SetRemote(k)
  \/ \E k \in LocalKeys : SetLocal(k)

MCNext == /\ ((Calls /\ now' = now) \/ \E d \in TickSet : Tick(d))
          /\ g' = UpdG(g, act')

MCSpec == MCInit /\ [][MCNext]_mcvars

-----------------------------------------------------------------------------
(* C05: every request transaction completes exactly once.                  *)

\* the ghost (events) and the agent agree on what is outstanding
LifeInv == \A t \in Tids : (g[t].st = "open") <=> (t \in Outstanding)

\* anything the agent does for a transaction (retransmission, completion) happens while it is open
EventOnlyWhileOpen ==
  \A t \in Tids : (PollOf(act', t) \/ Completes(act', t)) => g[t].st = "open"
\* a transaction leaves the outstanding set only through its completion event, and then it does
GoneIffCompleted ==
  \A t \in Tids : (t \in Outstanding /\ t \notin Outstanding') <=> (g[t].st = "open" /\ Completes(act', t))
\* a transaction enters the set only through an accepted send
NewIffSent ==
  \A t \in Tids : (t \notin Outstanding /\ t \in Outstanding') <=> (IsReqTransmit(act') /\ act'.tid = t /\ g[t].st = "closed")
\* responses for ids that are not open change nothing and are dropped
UnknownResponseIgnored ==
  (act'.name = "recv" /\ act'.cls = "response" /\ g[act'.tid].st = "closed")
     => (act'.reply.k = "drop" /\ UNCHANGED state)
\* a duplicate send is refused and the existing transaction untouched; a closed id is reusable
DuplicateSendRefused ==
  (act'.name = "send" /\ act'.cls = "request")
     => IF g[act'.tid].st = "open"
          THEN act'.reply.k = "err" /\ UNCHANGED state
          ELSE act'.reply.k = "transmit" /\ act'.tid \in Outstanding'
\* a call about one transaction never touches another one
OthersUntouched ==
  \A t \in Outstanding :
     (t \in Outstanding' /\ out'[t] # out[t]) =>
        \/ PollOf(act', t)
        \/ (act'.name \in {"cancel", "cancel_rt", "configure"} /\ act'.tid = t)

C05Step == /\ EventOnlyWhileOpen /\ GoneIffCompleted /\ NewIffSent
           /\ UnknownResponseIgnored /\ DuplicateSendRefused /\ OthersUntouched
C05Prop == [][C05Step]_mcvars

-----------------------------------------------------------------------------
(* C06: timing.  What the events say the schedule is ...                   *)
GInterval(x, k) ==           \* interval after the k-th transmission of an open transaction (k >= 1)
  IF x.dflt THEN (IF k <= Len(DefSched) THEN DefSched[k] ELSE DefLast)
  ELSE IF Udp THEN (IF k <= x.n THEN x.rto * Pow2(k - 1) ELSE x.last)
  ELSE x.last + SumSeq(UdpSched(x.rto, x.n))
GRetrans(x) == IF x.dflt THEN Len(DefSched) ELSE IF Udp THEN x.n ELSE 0
GDueAt(x)   == x.lastTx + GInterval(x, x.ntx)

\* ... is what the agent will do at every instant: wait exactly until the due instant, and then
\* retransmit if retransmissions remain (and were not cancelled), else time out.
ScheduleInv ==
  \A t \in Tids : g[t].st = "open" /\ ~g[t].cc =>
    \A i \in 0..Horizon :
      LET s == Svc(out[t], i)  x == g[t] IN
        IF i < GDueAt(x) THEN s.k = "wait" /\ s.t = GDueAt(x)
        ELSE IF x.ntx - 1 >= GRetrans(x) THEN s.k = "timeout"
        ELSE IF x.crt THEN s.k = "cancelled"
        ELSE s.k = "send"
\* after cancel() the next poll reports Cancelled whatever the instant
CancelInv ==
  \A t \in Tids : g[t].st = "open" /\ g[t].cc => \A i \in 0..Horizon : Svc(out[t], i).k = "cancelled"

\* WaitUntil(w) with outstanding requests: nothing is due before w, polling earlier gives the same w,
\* polling at w gives an event
PromiseInv ==
  \A i \in 0..Horizon :
    (Outstanding # {} /\ Due(i) = {}) =>
       LET w == MinWake(i) IN
         /\ w > i
         /\ \A j \in i..(w - 1) : Due(j) = {} /\ MinWake(j) = w
         /\ Due(w) # {}
\* no transmission after cancel_retransmissions / cancel
NoTransmitAfterCancel ==
  \A t \in Tids : (PollOf(act', t) /\ act'.reply.k = "transmit") => ~g[t].crt
\* poll hands out an event exactly when something is due at its instant
PollEventIffDue ==
  act'.name = "poll" => ((act'.reply.k = "wait") <=> (Due(act'.now) = {}))
C06Prop == [][NoTransmitAfterCancel /\ PollEventIffDue]_mcvars

-----------------------------------------------------------------------------
(* C07: responses to authenticated requests need valid integrity.          *)
AuthResponses ==
  (act'.name = "recv" /\ act'.cls = "response") =>
     LET t == act'.tid IN
       /\ (act'.reply.k = "response" /\ g[t].st = "open" /\ g[t].sealed)
             => (rcred # None /\ act'.integ = rcred)
       /\ (act'.reply.k = "response") => g[t].st = "open"
       /\ (g[t].st = "open" /\ ~g[t].sealed) => act'.reply.k = "response"
       /\ (g[t].st = "open" /\ g[t].sealed /\ rcred # None /\ act'.integ = rcred) => act'.reply.k = "response"
       /\ (act'.reply.k = "drop") => UNCHANGED state       \* neither completes, cancels nor delays
C07Prop == [][AuthResponses]_mcvars

-----------------------------------------------------------------------------
(* C15: validated peers.                                                   *)
Validation ==
  /\ validated \subseteq validated'
  /\ validated' # validated =>
       /\ act'.name = "recv" /\ act'.reply.k \in {"incoming", "response"}
       /\ validated' = validated \cup {act'.from}
  /\ (act'.name = "recv" /\ act'.reply.k \in {"incoming", "response"}) => act'.from \in validated'
  /\ (act'.name = "recv" /\ act'.reply.k = "drop") => validated' = validated
C15Prop == [][Validation]_mcvars

-----------------------------------------------------------------------------
(* C18: every transmission is the request as handed to send.               *)
Transmissions ==
  /\ \A t \in Tids : (PollOf(act', t) /\ act'.reply.k = "transmit")
        => (act'.reply.pay = g[t].pay /\ act'.reply.to = g[t].to)
  /\ (act'.name = "send" /\ act'.reply.k = "transmit")
        => (act'.reply.pay = act'.pay /\ act'.reply.to = act'.to)
  /\ (act'.name = "send" /\ act'.cls # "request") => UNCHANGED state
PeerInv == \A t \in Tids : g[t].st = "open" => (t \in Outstanding /\ out[t].to = g[t].to)
C18Prop == [][Transmissions]_mcvars

-----------------------------------------------------------------------------
MCTypeOK == TypeOK /\ now \in 0..MaxTime

(* Non-vacuity witnesses: each must be VIOLATED (checked as invariants in   *)
(* a separate run); they show the antecedents above are reachable.         *)
W_Delivered   == ~(act.name = "recv" /\ act.cls = "response" /\ act.reply.k = "response")
W_SealedDeliv == ~(act.name = "recv" /\ act.cls = "response" /\ act.reply.k = "response" /\ act.integ \in Keys)
W_Timeout     == ~(act.name = "poll" /\ act.reply.k = "timeout")
W_Cancelled   == ~(act.name = "poll" /\ act.reply.k = "cancelled")
W_Retransmit  == ~(act.name = "poll" /\ act.reply.k = "transmit")
W_TwoOpen     == ~(Cardinality(Outstanding) >= 2)
W_Reuse       == ~(act.name = "send" /\ act.cls = "request" /\ act.reply.k = "transmit" /\ now > 0)

-----------------------------------------------------------------------------
(* Labelled transition system, one line per edge (VIEW core,               *)
(* ACTION_CONSTRAINT Emit, -workers 1).                                    *)
SetToSeq(S) == IF S = {} THEN <<>> ELSE
  LET RECURSIVE F(_) F(R) == IF R = {} THEN <<>> ELSE LET x == CHOOSE y \in R : TRUE IN <<x>> \o F(R \ {x}) IN F(S)
RECURSIVE SortedTids(_)
SortedTids(S) == IF S = {} THEN <<>> ELSE LET m == Min(S) IN <<m>> \o SortedTids(S \ {m})
StateJson(o, v, rc, lc, n) ==
  [out |-> [i \in 1..Cardinality(DOMAIN o) |->
              LET t == SortedTids(DOMAIN o)[i] IN
              [tid |-> t, to |-> o[t].to, sealed |-> o[t].sealed, pay |-> o[t].pay, sched |-> o[t].sched,
               last |-> o[t].last, idx |-> o[t].idx, lastSend |-> o[t].lastSend, sc |-> o[t].sc, rc |-> o[t].rc]],
   val |-> SetToSeq(v), rcred |-> rc, lcred |-> lc, now |-> n,
   \* what a poll at an instant before every transmission answers (the harness's early-poll probe)
   probe |-> IF DOMAIN o = {} THEN "idle"
             ELSE IF \E t \in DOMAIN o : o[t].rc THEN "skip"
             ELSE ToString(Min({Svc(o[t], -1).t : t \in DOMAIN o}))]
Emit == PrintT("EDGE " \o ToJson([src |-> StateJson(out, validated, rcred, lcred, now), act |-> act',
                                  dst |-> StateJson(out', validated', rcred', lcred', now')]))
=============================================================================
