------------------------------ MODULE StunAttrs ------------------------------
(***************************************************************************)
(* The 19 built-in attribute types of stun-types (RFC 8489 section 14 and  *)
(* RFC 8445 section 16.1): for each type code                              *)
(*   Verdict(ty, value, tid)  "valid" | "invalid" | "asis" (the RFCs and   *)
(*                            the property leave it open; never alarmed)   *)
(*   Fields(ty, value, tid)   what a successful decode exposes             *)
(*   Encode(ty, fields, tid)  the canonical value bytes of those fields    *)
(* and the TLV wire form Wire(ty, value) = type, length, value, zero pad.  *)
(***************************************************************************)
EXTENDS StunHeader

USERNAME == 6           MESSAGEINTEGRITY == 8     ERRORCODE_T == 9        UNKNOWNATTRIBUTES == 10
REALM == 20             NONCE == 21               MESSAGEINTEGRITY256 == 28
PASSWORDALGORITHM == 29 USERHASH == 30            XORMAPPEDADDRESS == 32  PRIORITY == 36
USECANDIDATE == 37      PASSWORDALGORITHMS == 32770                       ALTERNATEDOMAIN == 32771
SOFTWARE_T == 32802     ALTERNATESERVER == 32803  FINGERPRINT_T == 32808  ICECONTROLLED == 32809
ICECONTROLLING == 32810

BuiltinTypes == {USERNAME, MESSAGEINTEGRITY, ERRORCODE_T, UNKNOWNATTRIBUTES, REALM, NONCE, MESSAGEINTEGRITY256,
                 PASSWORDALGORITHM, USERHASH, XORMAPPEDADDRESS, PRIORITY, USECANDIDATE, PASSWORDALGORITHMS,
                 ALTERNATEDOMAIN, SOFTWARE_T, ALTERNATESERVER, FINGERPRINT_T, ICECONTROLLED, ICECONTROLLING}
TextTypes == {USERNAME, REALM, NONCE, SOFTWARE_T, ALTERNATEDOMAIN}
AddrTypes == {XORMAPPEDADDRESS, ALTERNATESERVER}

Wire(ty, value) == W16(ty) \o W16(Len(value)) \o value \o Zeros(Pad4(Len(value)) - Len(value))

\* XOR key of XOR-MAPPED-ADDRESS: port with the top 16 bits of the cookie, address with cookie || transaction id
XorKey(tid) == MagicCookie \o tid
XorPort(p) == <<p[1] ^^ 33, p[2] ^^ 18>>
XorIp(ip, tid) == [i \in 1..Len(ip) |-> ip[i] ^^ XorKey(tid)[i]]

FpMask == <<83, 84, 85, 78>>          \* 0x5354554e

\* PASSWORD-ALGORITHMS entries: 2-byte algorithm, 2-byte parameter length (must be 0: no algorithm has parameters)
AlgList(v) == [k \in 1..(Len(v) \div 4) |-> U16(v, 4 * k - 3)]
AlgsOk(v) == Len(v) % 4 = 0 /\ \A k \in 0..((Len(v) \div 4) - 1) : U16(v, 4 * k + 1) \in {1, 2} /\ U16(v, 4 * k + 3) = 0

Verdict(ty, v, tid) ==
  LET n == Len(v) IN
  CASE ty = USERNAME ->
         IF ~Utf8Valid(v) \/ n >= 514 THEN "invalid" ELSE IF n <= 508 THEN "valid" ELSE "asis"
    [] ty \in {REALM, NONCE, SOFTWARE_T} ->
         IF Utf8Valid(v) /\ n <= 763 THEN "valid" ELSE "invalid"
    [] ty = ALTERNATEDOMAIN ->
         IF ~Utf8Valid(v) THEN "invalid" ELSE IF n <= 255 THEN "valid" ELSE "asis"
    [] ty = ERRORCODE_T ->
         IF n < 4 \/ n > 4 + 763 THEN "invalid"
         ELSE IF (v[3] % 8) \notin 3..6 \/ v[4] > 99 \/ ~Utf8Valid(SubSeq(v, 5, n)) THEN "invalid"
         ELSE IF v[1] # 0 \/ v[2] # 0 \/ v[3] >= 8 THEN "asis"       \* reserved bits set: SHOULD be 0, may be ignored
         ELSE "valid"
    [] ty = UNKNOWNATTRIBUTES -> IF n % 2 = 0 THEN "valid" ELSE "invalid"
    [] ty = MESSAGEINTEGRITY -> IF n = 20 THEN "valid" ELSE "invalid"
    [] ty = MESSAGEINTEGRITY256 -> IF n >= 16 /\ n <= 32 /\ n % 4 = 0 THEN "valid" ELSE "invalid"
    [] ty = USERHASH -> IF n = 32 THEN "valid" ELSE "invalid"
    [] ty \in {PRIORITY, FINGERPRINT_T} -> IF n = 4 THEN "valid" ELSE "invalid"
    [] ty = USECANDIDATE -> IF n = 0 THEN "valid" ELSE "invalid"
    [] ty \in {ICECONTROLLED, ICECONTROLLING} -> IF n = 8 THEN "valid" ELSE "invalid"
    [] ty = PASSWORDALGORITHM -> IF n = 4 /\ AlgsOk(v) THEN "valid" ELSE "invalid"
    [] ty = PASSWORDALGORITHMS -> IF n = 0 THEN "asis" ELSE IF AlgsOk(v) THEN "valid" ELSE "invalid"
    [] ty \in AddrTypes ->
         IF n >= 4 /\ ((v[2] = 1 /\ n = 8) \/ (v[2] = 2 /\ n = 20))
           THEN (IF v[1] = 0 THEN "valid" ELSE "asis")               \* first byte: MUST be 0 when sent, ignored on receipt
           ELSE "invalid"
    [] OTHER -> "asis"

Fields(ty, v, tid) ==
  LET n == Len(v) IN
  CASE ty \in TextTypes -> [text |-> v]
    [] ty = ERRORCODE_T -> [code |-> (v[3] % 8) * 100 + v[4], text |-> SubSeq(v, 5, n)]
    [] ty = UNKNOWNATTRIBUTES -> [list |-> [k \in 1..(n \div 2) |-> U16(v, 2 * k - 1)]]
    [] ty \in {MESSAGEINTEGRITY, MESSAGEINTEGRITY256} -> [hmac |-> v]
    [] ty = USERHASH -> [hash |-> v]
    [] ty = PRIORITY -> [u32 |-> v]
    [] ty = FINGERPRINT_T -> [fp |-> XorBytes(v, FpMask)]
    [] ty = USECANDIDATE -> [none |-> TRUE]
    [] ty \in {ICECONTROLLED, ICECONTROLLING} -> [u64 |-> v]
    [] ty = PASSWORDALGORITHM -> [alg |-> U16(v, 1)]
    [] ty = PASSWORDALGORITHMS -> [algs |-> AlgList(v)]
    [] ty = ALTERNATESERVER -> [addr |-> [fam |-> v[2], port |-> U16(v, 3), ip |-> SubSeq(v, 5, n)]]
    [] ty = XORMAPPEDADDRESS ->
         [addr |-> [fam |-> v[2], port |-> U16(XorPort(SubSeq(v, 3, 4)), 1), ip |-> XorIp(SubSeq(v, 5, n), tid)]]
    [] OTHER -> [none |-> TRUE]

EncAlgs(l) == [i \in 1..(4 * Len(l)) |-> LET a == l[(i + 3) \div 4] IN
                  IF i % 4 = 1 THEN a \div 256 ELSE IF i % 4 = 2 THEN a % 256 ELSE 0]
EncList(l) == [i \in 1..(2 * Len(l)) |-> LET a == l[(i + 1) \div 2] IN IF i % 2 = 1 THEN a \div 256 ELSE a % 256]

Encode(ty, f, tid) ==
  CASE ty \in TextTypes -> f.text
    [] ty = ERRORCODE_T -> <<0, 0, f.code \div 100, f.code % 100>> \o f.text
    [] ty = UNKNOWNATTRIBUTES -> EncList(f.list)
    [] ty \in {MESSAGEINTEGRITY, MESSAGEINTEGRITY256} -> f.hmac
    [] ty = USERHASH -> f.hash
    [] ty = PRIORITY -> f.u32
    [] ty = FINGERPRINT_T -> XorBytes(f.fp, FpMask)
    [] ty = USECANDIDATE -> <<>>
    [] ty \in {ICECONTROLLED, ICECONTROLLING} -> f.u64
    [] ty = PASSWORDALGORITHM -> W16(f.alg) \o <<0, 0>>
    [] ty = PASSWORDALGORITHMS -> EncAlgs(f.algs)
    [] ty = ALTERNATESERVER -> <<0, f.addr.fam>> \o W16(f.addr.port) \o f.addr.ip
    [] ty = XORMAPPEDADDRESS -> <<0, f.addr.fam>> \o XorPort(W16(f.addr.port)) \o XorIp(f.addr.ip, tid)
    [] OTHER -> <<>>

(* In-spec theorems, checked by TLC on small complete domains (MCAttrs):   *)
(* decoding what was encoded gives the fields back; encoding is valid;     *)
(* re-encoding a decoded valid value is stable.                            *)
RoundTrip(ty, v, tid) ==
  Verdict(ty, v, tid) = "valid" =>
    LET f == Fields(ty, v, tid)  e == Encode(ty, f, tid) IN
      /\ Verdict(ty, e, tid) = "valid"
      /\ Fields(ty, e, tid) = f
      /\ Encode(ty, Fields(ty, e, tid), tid) = e
      /\ e = v            \* for values the verdict calls valid the encoding is already canonical
=============================================================================
