------------------------------ MODULE MCCompr ------------------------------
(* C16: comprehension-required is exactly "type value < 0x8000" for all 65536 types.  TLC evaluates the
   specification's predicate on every type and prints the (unique) threshold it amounts to. *)
EXTENDS StunMessage, TLC
Thr == CHOOSE n \in 0..65536 : \A t \in 0..65535 : ComprehensionRequired(t) <=> t < n
ASSUME PrintT("COMPR-REQUIRED-BELOW " \o ToString(Thr))
VARIABLE x
Init == x = 0
Next == UNCHANGED x
=============================================================================
