INIT Init
NEXT Next
