INIT Init
NEXT Next
