INIT MCInit
NEXT MCNext
CONSTANTS
  Radix = 256
  Lens = {0, 1, 2}
  Bytes = {0, 1, 2}
  MaxStream = 8
  TailIds = {1, 2, 3, 4, 5}


VIEW core
CHECK_DEADLOCK FALSE
ACTION_CONSTRAINT Emit
