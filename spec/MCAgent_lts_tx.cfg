INIT MCInit
NEXT MCNext
CONSTANTS
  Tids = {1, 2}
  Addrs = {"a1", "a2", "a3"}
  Keys = {"k1", "k2"}
  Payloads = {"p1", "p2"}
  None = "none"
  Corrupt = "corrupt"
  Udp = TRUE
  DefSched <- Sched_1
  DefLast = 1
  IdleWait = 3600
  MaxTime = 2
  TickSet = {1}
  ToAddrs = {"a1", "a2"}
  FromAddrs = {"a3"}
  SealedOpts = {FALSE}
  IntegOpts = {"none"}
  CfgIds = {}
  RemoteKeys = {}
  LocalKeys = {}
  OtherCls = {"indication", "success", "error", "data"}
  InCls = {}
  CancelOps = {}
  Horizon = 4
VIEW core
CHECK_DEADLOCK FALSE
ACTION_CONSTRAINT Emit
