-------------------------- MODULE StunAgentHookTrace --------------------------
(***************************************************************************)
(* Trace validation of runs recorded by the cfg-guarded hooks inside       *)
(* stun-proto/src/agent.rs (the repository's own unit tests, and the       *)
(* adapter's random histories): one line per public call with its          *)
(* arguments and the agent's COMPLETE internal state after the call        *)
(* (every outstanding request with its schedule, position, last send       *)
(* instant and cancellation flags).  The return value is not logged: TLC   *)
(* infers it (the step properties of MCAgent are checked on the inferred   *)
(* reply); the recorded state must equal the specification's state after   *)
(* every step.                                                             *)
(***************************************************************************)
EXTENDS MCAgent, IOUtils

Rec == ndJsonDeserialize(IOEnv.TRACE)
VARIABLE l
tvars == <<mcvars, l>>
RealUdpSched == <<500, 1000, 2000, 4000, 8000, 16000>>

TInit == MCInit /\ l = 1
Ev(n) == l <= Len(Rec) /\ Rec[l].ev = n /\ l' = l + 1
R == Rec[l]
G == g' = UpdG(g, act')

\* the recorded internal state, as a specification state
PostOut == LET P == R.post.out IN
  [t \in {P[i].tid : i \in 1..Len(P)} |->
     LET o == P[CHOOSE i \in 1..Len(P) : P[i].tid = t] IN
       [sealed |-> o.sealed, to |-> o.to, pay |-> o.pay, sched |-> o.sched, last |-> o.last,
        idx |-> o.idx, lastSend |-> o.lastSend, sc |-> o.sc, rc |-> o.rc]]
PostOk == /\ out' = PostOut
          /\ validated' = {R.post.val[i] : i \in 1..Len(R.post.val)}
          /\ rcred' = R.post.rcred /\ lcred' = R.post.lcred

TReset == /\ Ev("reset")
          /\ out' = <<>> /\ validated' = {} /\ rcred' = None /\ lcred' = None
          /\ act' = [name |-> "init"] /\ now' = 0 /\ g' = [t \in Tids |-> GClosed]
TSendReq == Ev("send_req") /\ SendRequest(R.tid, R.to, R.sealed, R.pay, R.now) /\ PostOk /\ now' = R.now /\ G
TSendOther == Ev("send_other") /\ SendOther(R.cls, R.to, R.pay) /\ PostOk /\ UNCHANGED now /\ G
TResp == Ev("recv_resp") /\ HandleResponse(R.tid, R.from, R.integ) /\ PostOk /\ UNCHANGED now /\ G
TInc == Ev("recv_other") /\ HandleIncoming(R.cls, R.from) /\ PostOk /\ UNCHANGED now /\ G
TPoll == Ev("poll") /\ Poll(R.now) /\ PostOk /\ now' = R.now /\ G
TCancel == Ev("cancel") /\ Cancel(R.tid) /\ PostOk /\ UNCHANGED now /\ G
TCancelRt == Ev("cancel_rt") /\ CancelRetrans(R.tid) /\ PostOk /\ UNCHANGED now /\ G
TCfg == Ev("configure") /\ Configure(R.tid, R.rto, R.n, R.last) /\ PostOk /\ UNCHANGED now /\ G
TSetR == Ev("set_remote") /\ SetRemote(R.key) /\ PostOk /\ UNCHANGED now /\ G
TSetL == Ev("set_local") /\ SetLocal(R.key) /\ PostOk /\ UNCHANGED now /\ G

TNext == TReset \/ TSendReq \/ TSendOther \/ TResp \/ TInc \/ TPoll \/ TCancel \/ TCancelRt \/ TCfg \/ TSetR \/ TSetL
TSpec == TInit /\ [][TNext]_tvars
TStepProps == [][act'.name = "init" \/ (C05Step /\ NoTransmitAfterCancel /\ PollEventIffDue /\ AuthResponses /\ Validation /\ Transmissions)]_tvars

\* Poll may branch (which due request is served is inferred): the trace is accepted iff some branch consumes every line
Accepted ==
  IF TLCGet("stats").diameter - 1 = Len(Rec) THEN TRUE
  ELSE /\ PrintT("REJECTED " \o ToString(TLCGet("stats").diameter))
       /\ FALSE
=============================================================================
