SPECIFICATION MCSpec
CONSTANTS
  Tids = {1}
  Addrs = {"a1", "a2", "a3"}
  Keys = {"k1", "k2"}
  Payloads = {"p1"}
  None = "none"
  Corrupt = "corrupt"
  Udp = FALSE
  DefSched <- Sched_none
  DefLast = 3
  IdleWait = 3600
  MaxTime = 9
  TickSet = {1, 2}
  ToAddrs = {"a1"}
  FromAddrs = {"a1"}
  SealedOpts = {FALSE}
  IntegOpts = {"none"}
  CfgIds = {1, 2, 3, 4, 5, 6, 7}
  RemoteKeys = {}
  LocalKeys = {}
  OtherCls = {}
  InCls = {}
  CancelOps = {"cancel", "cancel_rt"}
  Horizon = 24
VIEW core
CHECK_DEADLOCK FALSE
INVARIANTS IndInvHere
PROPERTIES IndRefines
