INIT Init
NEXT Next
