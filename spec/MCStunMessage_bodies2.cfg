INIT Init
NEXT Next

CONSTANTS
  MaxAttrs = 2
  Letters = {1, 2, 3, 4, 5, 6, 7, 8, 9, 10, 11, 12, 13, 14, 15, 16, 17, 18, 19, 20}
  HeaderIds = {2, 14}
  Defects = {"hdrcut", "hdrcut1", "hdrcut3", "valcut", "padcut"}
INVARIANTS AcceptIffWellFormed ErrorIsACause RejectedHasCause CausesAgree TruncationDescribes ExposureInv EmitCase
CHECK_DEADLOCK FALSE
