------------------------------ MODULE StunBytes ------------------------------
(***************************************************************************)
(* Executable byte-level definitions shared by the codec specifications:   *)
(* big-endian integers, 4-byte padding, CRC-32 (ISO-HDLC), UTF-8 validity. *)
(* A byte string is a sequence of integers 0..255 (1-based).  32-bit       *)
(* values are pairs <<hi16, lo16>> because TLC integers are 32-bit signed. *)
(***************************************************************************)
EXTENDS Integers, Sequences, FiniteSets, Bitwise, SequencesExt

IsByte(x) == x \in 0..255
U16(b, i) == b[i] * 256 + b[i + 1]                 \* big-endian 16-bit value at 1-based index i
W16(v) == <<v \div 256, v % 256>>
U32(b, i) == <<U16(b, i), U16(b, i + 2)>>           \* as <<hi16, lo16>>
W32(p) == W16(p[1]) \o W16(p[2])
Pad4(n) == ((n + 3) \div 4) * 4
Zeros(n) == [i \in 1..n |-> 0]
Slice(b, from, len) == SubSeq(b, from, from + len - 1)   \* len bytes starting at 1-based index from
XorBytes(a, b) == [i \in 1..Len(a) |-> a[i] ^^ b[i]]

(* CRC-32/ISO-HDLC (reflected, poly 0xEDB88320, init and xorout 0xFFFFFFFF) *)
Poly == <<60856, 33568>>
X2(a, b) == <<a[1] ^^ b[1], a[2] ^^ b[2]>>
Shr1(a) == <<a[1] \div 2, (a[2] \div 2) + (a[1] % 2) * 32768>>
Shr8(a) == <<a[1] \div 256, (a[2] \div 256) + (a[1] % 256) * 256>>
RECURSIVE CrcStep(_, _)
CrcStep(c, k) == IF k = 0 THEN c ELSE CrcStep(IF c[2] % 2 = 1 THEN X2(Shr1(c), Poly) ELSE Shr1(c), k - 1)
CrcTable == [i \in 0..255 |-> CrcStep(<<0, i>>, 8)]
CrcUpd(c, b) == X2(Shr8(c), CrcTable[(c[2] % 256) ^^ b])
Crc32(bytes) == LET r == FoldLeft(CrcUpd, <<65535, 65535>>, bytes) IN <<65535 - r[1], 65535 - r[2]>>

ASSUME Crc32(<<49, 50, 51, 52, 53, 54, 55, 56, 57>>) = <<52212, 14630>>     \* "123456789" -> 0xCBF43926
ASSUME Crc32(<<>>) = <<0, 0>>

(* UTF-8 well-formedness, Unicode 15 Table 3-7.  State = number and kind   *)
(* of continuation bytes still expected.                                   *)
Utf8Step(st, x) ==
  \* st: "bad" | <<n, lo, hi>> (n continuation bytes expected, the next one in lo..hi)
  IF st = <<"bad">> THEN st
  ELSE IF st[1] = 0 THEN
         IF x <= 127 THEN <<0, 128, 191>>
         ELSE IF x >= 194 /\ x <= 223 THEN <<1, 128, 191>>
         ELSE IF x = 224 THEN <<2, 160, 191>>
         ELSE IF (x >= 225 /\ x <= 236) \/ x = 238 \/ x = 239 THEN <<2, 128, 191>>
         ELSE IF x = 237 THEN <<2, 128, 159>>
         ELSE IF x = 240 THEN <<3, 144, 191>>
         ELSE IF x >= 241 /\ x <= 243 THEN <<3, 128, 191>>
         ELSE IF x = 244 THEN <<3, 128, 143>>
         ELSE <<"bad">>
  ELSE IF x >= st[2] /\ x <= st[3] THEN <<st[1] - 1, 128, 191>> ELSE <<"bad">>
Utf8Valid(bytes) == LET r == FoldLeft(Utf8Step, <<0, 128, 191>>, bytes) IN r # <<"bad">> /\ r[1] = 0

ASSUME Utf8Valid(<<>>) /\ Utf8Valid(<<104, 195, 169>>) /\ ~Utf8Valid(<<195>>) /\ ~Utf8Valid(<<192, 128>>)
ASSUME ~Utf8Valid(<<237, 160, 128>>) /\ Utf8Valid(<<244, 143, 191, 191>>) /\ ~Utf8Valid(<<244, 144, 128, 128>>)
=============================================================================
