SPECIFICATION MCSpec
CONSTANTS
  Tids = {1, 2}
  Addrs = {"a1", "a2", "a3"}
  Keys = {"k1", "k2"}
  Payloads = {"p1"}
  None = "none"
  Corrupt = "corrupt"
  Udp = TRUE
  DefSched <- Sched_1
  DefLast = 1
  IdleWait = 3600
  MaxTime = 3
  TickSet = {1}
  ToAddrs = {"a1"}
  FromAddrs = {"a1", "a2"}
  SealedOpts = {TRUE, FALSE}
  IntegOpts = {"none", "k1", "k2", "corrupt"}
  CfgIds = {1}
  RemoteKeys = {"k1", "k2"}
  LocalKeys = {}
  OtherCls = {"indication", "data"}
  InCls = {"request"}
  CancelOps = {"cancel", "cancel_rt"}
  Horizon = 6
VIEW core
CHECK_DEADLOCK FALSE
INVARIANTS IndInvHere
PROPERTIES IndRefines
