INIT Init
NEXT Next

CONSTANTS
  MaxAttrs = 5
  Letters = {5, 7, 9, 12, 13, 17}
  HeaderIds = {1}
  Defects = {}
INVARIANTS AcceptIffWellFormed ErrorIsACause RejectedHasCause CausesAgree TruncationDescribes ExposureInv EmitCase
CHECK_DEADLOCK FALSE
