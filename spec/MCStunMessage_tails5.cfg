INIT Init
NEXT Next

CONSTANTS
  MaxAttrs = 5
  Letters = {2, 5, 7, 9, 12, 13}
  HeaderIds = {1}
  Defects = {}
INVARIANTS AcceptIffWellFormed ErrorIsACause RejectedHasCause ExposureInv EmitCase
CHECK_DEADLOCK FALSE
