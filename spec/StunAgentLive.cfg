SPECIFICATION Spec
CONSTANTS
  Tids = {1, 2}
  Sched <- SchedLive
  Last = 2
  Cap = 2
  Sealed = {TRUE, FALSE}
INVARIANT BoundedRetrans
PROPERTY Completes
