INIT Init
NEXT Next
