INIT Init
NEXT Next
CONSTANTS
  OrdKinds = {"A", "B", "R", "U", "Z"}
  MaxOps = 7
VIEW core
ACTION_CONSTRAINT Emit
CHECK_DEADLOCK FALSE
