------------------------------ MODULE StunPair ------------------------------
(***************************************************************************)
(* Two STUN agents facing each other over an unreliable datagram network,  *)
(* each at once client and server, as the two ends of an ICE connectivity  *)
(* check are.  Both are the StunAgent specification itself (two INSTANCEs  *)
(* over disjoint variables).  A side's application answers every request   *)
(* its agent hands up with a success response that echoes the transaction  *)
(* id and is sealed with that side's response key; it does not go through  *)
(* the agent (as in examples/stund.rs).  BOTH SIDES DRAW THEIR TRANSACTION  *)
(* IDS FROM THE SAME SET, so a request may arrive whose id equals that of   *)
(* a request the receiver itself has outstanding.                          *)
(*                                                                         *)
(* Not one of the listed properties: the composition of C05, C07, C15 and  *)
(* C18 for two symmetric agents:                                           *)
(*   - a request from the peer never touches the receiver's own            *)
(*     transactions, whatever its id (only responses complete requests);   *)
(*   - each side's transactions are answered at most once;                 *)
(*   - a side's peer is validated exactly when a message of the peer was   *)
(*     accepted - an incoming request counts, a dropped response does not; *)
(*   - what one agent does never changes the other agent.                  *)
(***************************************************************************)
EXTENDS Integers, Sequences, FiniteSets, TLC, Json

CONSTANTS Tids, Keys, None, Corrupt, Udp, DefSched, DefLast, IdleWait,
          RespKeyA, RespKeyB,   \* what each side's application seals its responses with (None: unsealed)
          RemoteKeys,           \* remote credentials a side may configure
          SealedOpts,           \* may requests carry integrity?
          MaxTime, TickSet, MaxDup, MaxLoss, MaxFlight,
          CancelOn              \* BOOLEAN: may applications cancel?

Sides == {"a", "b"}
Peer(x) == IF x = "a" THEN "b" ELSE "a"
Addrs == Sides                  \* a side's address is its name
Payloads == {"req"}
RespKey(x) == IF x = "a" THEN RespKeyA ELSE RespKeyB

VARIABLES outA, valA, rcredA, lcredA,      \* agent a
          outB, valB, rcredB, lcredB,      \* agent b
          act,            \* the last agent call and its reply (shared observation variable of the two instances)
          lbl,            \* who moved and with which argument (observation)
          now,
          wire,           \* wire[x][k][t]: datagrams of kind k ("req"/"resp") and id t in flight TOWARDS side x
          ndup, nloss,
          stat,           \* ghost: stat[x][t] = [tx, delivered, done] of x's current transaction t
          ever            \* ghost: ever[x] = has x accepted any message of its peer?

A == INSTANCE StunAgent WITH out <- outA, validated <- valA, rcred <- rcredA, lcred <- lcredA
B == INSTANCE StunAgent WITH out <- outB, validated <- valB, rcred <- rcredB, lcred <- lcredB

avars == <<outA, valA, rcredA, lcredA>>
bvars == <<outB, valB, rcredB, lcredB>>
vars == <<avars, bvars, act, lbl, now, wire, ndup, nloss, stat, ever>>
core == <<avars, bvars, now, wire, ndup, nloss, stat, ever>>

Out(x) == IF x = "a" THEN outA ELSE outB
Val(x) == IF x = "a" THEN valA ELSE valB
Rcred(x) == IF x = "a" THEN rcredA ELSE rcredB

Init == /\ A!Init /\ B!Init /\ now = 0 /\ lbl = [who |-> "-", op |-> "init"]
        /\ wire = [x \in Sides |-> [k \in {"req", "resp"} |-> [t \in Tids |-> 0]]]
        /\ ndup = 0 /\ nloss = 0
        /\ stat = [x \in Sides |-> [t \in Tids |-> [tx |-> 0, delivered |-> 0, done |-> TRUE]]]
        /\ ever = [x \in Sides |-> FALSE]

Sched_1 == <<1>>
Sched_12 == <<1, 2>>

Put(w, x, k, t) == [w EXCEPT ![x][k][t] = IF @ < MaxFlight THEN @ + 1 ELSE @]
Take(w, x, k, t) == [w EXCEPT ![x][k][t] = @ - 1]

\* the agent calls of side x (the other agent is untouched by construction)
AgSend(x, t, s) == IF x = "a" THEN A!SendRequest(t, "b", s, "req", now) /\ UNCHANGED bvars
                              ELSE B!SendRequest(t, "a", s, "req", now) /\ UNCHANGED avars
AgPoll(x) == IF x = "a" THEN A!Poll(now) /\ UNCHANGED bvars ELSE B!Poll(now) /\ UNCHANGED avars
AgIncoming(x) == IF x = "a" THEN A!HandleIncoming("request", "b") /\ UNCHANGED bvars
                            ELSE B!HandleIncoming("request", "a") /\ UNCHANGED avars
AgResponse(x, t, k) == IF x = "a" THEN A!HandleResponse(t, "b", k) /\ UNCHANGED bvars
                                  ELSE B!HandleResponse(t, "a", k) /\ UNCHANGED avars
AgSetRemote(x, k) == IF x = "a" THEN A!SetRemote(k) /\ UNCHANGED bvars ELSE B!SetRemote(k) /\ UNCHANGED avars
AgCancel(x, t) == IF x = "a" THEN A!Cancel(t) /\ UNCHANGED bvars ELSE B!Cancel(t) /\ UNCHANGED avars

Send(x, t, s) ==
  /\ AgSend(x, t, s)
  /\ lbl' = [who |-> x, op |-> "send", tid |-> t, sealed |-> s]
  /\ IF act'.reply.k = "transmit"
       THEN /\ wire' = Put(wire, Peer(x), "req", t)
            /\ stat' = [stat EXCEPT ![x][t] = [tx |-> 1, delivered |-> 0, done |-> FALSE]]
       ELSE UNCHANGED <<wire, stat>>
  /\ UNCHANGED <<now, ndup, nloss, ever>>
Poll(x) ==
  /\ AgPoll(x)
  /\ lbl' = [who |-> x, op |-> "poll"]
  /\ IF act'.reply.k = "transmit"
       THEN /\ wire' = Put(wire, Peer(x), "req", act'.reply.tid)
            /\ stat' = [stat EXCEPT ![x][act'.reply.tid].tx = @ + 1]
       ELSE IF act'.reply.k \in {"timeout", "cancelled"}
         THEN stat' = [stat EXCEPT ![x][act'.reply.tid].done = TRUE] /\ UNCHANGED wire
         ELSE UNCHANGED <<wire, stat>>
  /\ UNCHANGED <<now, ndup, nloss, ever>>
SetKey(x, k) == AgSetRemote(x, k) /\ lbl' = [who |-> x, op |-> "set_remote", key |-> k]
                /\ UNCHANGED <<now, wire, ndup, nloss, stat, ever>>
Cancel(x, t) == AgCancel(x, t) /\ lbl' = [who |-> x, op |-> "cancel", tid |-> t]
                /\ UNCHANGED <<now, wire, ndup, nloss, stat, ever>>
Tick(d) == /\ now + d <= MaxTime /\ now' = now + d /\ act' = [name |-> "tick", d |-> d]
           /\ lbl' = [who |-> "-", op |-> "tick", d |-> d]
           /\ UNCHANGED <<avars, bvars, wire, ndup, nloss, stat, ever>>

\* the network hands a request with id t to side x: x's agent hands it up (and validates the peer), x's application
\* answers at once
RecvReq(x, t, keep) ==
  /\ wire[x]["req"][t] > 0
  /\ (keep => ndup < MaxDup)
  /\ AgIncoming(x)
  /\ lbl' = [who |-> x, op |-> "recv_req", tid |-> t, keep |-> keep]
  /\ wire' = Put(IF keep THEN wire ELSE Take(wire, x, "req", t), Peer(x), "resp", t)
  /\ ndup' = IF keep THEN ndup + 1 ELSE ndup
  /\ ever' = [ever EXCEPT ![x] = TRUE]
  /\ UNCHANGED <<now, nloss, stat>>
\* the network hands a response with id t to side x
RecvResp(x, t, keep) ==
  /\ wire[x]["resp"][t] > 0
  /\ (keep => ndup < MaxDup)
  /\ AgResponse(x, t, RespKey(Peer(x)))
  /\ lbl' = [who |-> x, op |-> "recv_resp", tid |-> t, keep |-> keep]
  /\ wire' = IF keep THEN wire ELSE Take(wire, x, "resp", t)
  /\ ndup' = IF keep THEN ndup + 1 ELSE ndup
  /\ stat' = IF act'.reply.k = "response" THEN [stat EXCEPT ![x][t].delivered = @ + 1, ![x][t].done = TRUE] ELSE stat
  /\ ever' = [ever EXCEPT ![x] = @ \/ act'.reply.k = "response"]
  /\ UNCHANGED <<now, nloss>>
Lose(x, k, t) ==
  /\ nloss < MaxLoss /\ wire[x][k][t] > 0
  /\ wire' = Take(wire, x, k, t) /\ nloss' = nloss + 1
  /\ act' = [name |-> "lose"] /\ lbl' = [who |-> x, op |-> "lose", kind |-> k, tid |-> t]
  /\ UNCHANGED <<avars, bvars, now, ndup, stat, ever>>

Next ==
  \/ \E x \in Sides, t \in Tids, s \in SealedOpts : Send(x, t, s)
  \/ \E x \in Sides : Poll(x)
  \/ \E x \in Sides, k \in RemoteKeys : SetKey(x, k)
  \/ CancelOn /\ \E x \in Sides, t \in Tids : Cancel(x, t)
  \/ \E d \in TickSet : Tick(d)
  \/ \E x \in Sides, t \in Tids, keep \in BOOLEAN : RecvReq(x, t, keep) \/ RecvResp(x, t, keep)
  \/ \E x \in Sides, k \in {"req", "resp"}, t \in Tids : Lose(x, k, t)
Spec == Init /\ [][Next]_vars

-----------------------------------------------------------------------------
AtMostOnce == \A x \in Sides, t \in Tids : stat[x][t].delivered <= 1
BoundedTransmissions == \A x \in Sides, t \in Tids : stat[x][t].tx <= 1 + Len(DefSched)
GhostAgrees == \A x \in Sides, t \in Tids : (~stat[x][t].done) <=> (t \in DOMAIN Out(x))
\* the peer is validated exactly when one of its messages was accepted (a request handed up or a response matched)
ValidatedIffAccepted == \A x \in Sides : (Peer(x) \in Val(x)) <=> ever[x]
OnlyThePeer == \A x \in Sides : Val(x) \subseteq {Peer(x)}
\* a request from the peer is handed up and leaves BOTH transaction tables alone - also when its id is that of a
\* request the receiver has outstanding itself
PeerRequestsHarmless ==
  [][lbl'.op = "recv_req" => (act'.reply.k = "incoming" /\ UNCHANGED <<outA, outB>>)]_vars
\* a response completes at most the receiver's transaction of that id, never anything of the sender's
ResponsesAreLocal ==
  [][lbl'.op = "recv_resp" =>
       /\ (lbl'.who = "a" => UNCHANGED bvars) /\ (lbl'.who = "b" => UNCHANGED avars)
       /\ \A t \in Tids \ {lbl'.tid} : (t \in DOMAIN outA <=> t \in DOMAIN outA') /\ (t \in DOMAIN outB <=> t \in DOMAIN outB')]_vars
\* late or foreign responses are dropped without effect
LateDropped ==
  [][(lbl'.op = "recv_resp" /\ stat[lbl'.who][lbl'.tid].done) => (act'.reply.k = "drop" /\ UNCHANGED <<avars, bvars>>)]_vars
\* a sealed request is completed only by a response sealed with the configured remote key
NoUnauthenticatedCompletion ==
  [][(lbl'.op = "recv_resp" /\ act'.reply.k = "response" /\ Out(lbl'.who)[lbl'.tid].sealed)
       => (Rcred(lbl'.who) # None /\ RespKey(Peer(lbl'.who)) = Rcred(lbl'.who))]_vars

-----------------------------------------------------------------------------
RECURSIVE SortedSeq(_)
SortedSeq(S) == IF S = {} THEN <<>> ELSE LET m == CHOOSE x \in S : \A y \in S : x <= y IN <<m>> \o SortedSeq(S \ {m})
TidSeq == SortedSeq(Tids)
\* compact state for the LTS dump (arrays, no ghosts: they do not influence behaviour):
\*   side = <<outstanding <<tid, sealed, idx, lastSend, sc, rc>>.., peer validated, remote key, requests in flight
\*            towards it per id, responses in flight towards it per id>>;  state = <<side a, side b, now, ndup, nloss>>
OutArr(o) == [i \in 1..Cardinality(DOMAIN o) |-> LET t == SortedSeq(DOMAIN o)[i] IN
                 <<t, o[t].sealed, o[t].idx, o[t].lastSend, o[t].sc, o[t].rc>>]
SideArr(o, v, rc, x, w) ==
  <<OutArr(o), Peer(x) \in v, rc, [i \in 1..Len(TidSeq) |-> w[x]["req"][TidSeq[i]]], [i \in 1..Len(TidSeq) |-> w[x]["resp"][TidSeq[i]]]>>
StateArr(oa, va, ra, ob, vb, rb, n, w, nd, nl) == <<SideArr(oa, va, ra, "a", w), SideArr(ob, vb, rb, "b", w), n, nd, nl>>
Emit == PrintT("EDGE " \o ToJson(<<StateArr(outA, valA, rcredA, outB, valB, rcredB, now, wire, ndup, nloss),
                                   lbl', IF "reply" \in DOMAIN act' THEN act'.reply ELSE [k |-> "-"],
                                   StateArr(outA', valA', rcredA', outB', valB', rcredB', now', wire', ndup', nloss')>>))
=============================================================================
