--------------------------- MODULE MCStunMessage ---------------------------
(***************************************************************************)
(* Enumeration of message skeletons: every reachable state is one message  *)
(* (a header variant and a sequence of attribute kinds/lengths/defects),   *)
(* concretised to bytes by Bytes(..).  On every one TLC checks that the    *)
(* two formulations of acceptance agree (C02), that the reported error is  *)
(* among the declarative causes, and the exposure/integrity invariants     *)
(* (C10).  Each state is also printed as a CASE for the implementation.    *)
(***************************************************************************)
EXTENDS StunMessage, TLC, Json

CONSTANTS MaxAttrs,     \* attributes per message
          Letters,      \* indices into Alphabet
          HeaderIds,    \* indices into Headers
          Defects       \* subset of {"hdrcut", "valcut", "padcut"} applicable to the last attribute

\* attribute letters: kind (type), value length, variant
Alphabet == <<
  [type |-> 6,     vlen |-> 0,  var |-> "ord"],      \*  1 USERNAME, empty
  [type |-> 6,     vlen |-> 5,  var |-> "ord"],      \*  2 USERNAME, padded
  [type |-> 32802, vlen |-> 4,  var |-> "ord"],      \*  3 SOFTWARE, aligned
  [type |-> 32802, vlen |-> 1,  var |-> "ord"],      \*  4 SOFTWARE, 3 padding bytes
  [type |-> 32512, vlen |-> 2,  var |-> "ord"],      \*  5 0x7f00 unknown, comprehension required
  [type |-> 65280, vlen |-> 3,  var |-> "ord"],      \*  6 0xff00 unknown, comprehension optional
  [type |-> 8,     vlen |-> 20, var |-> "ord"],      \*  7 MESSAGE-INTEGRITY
  [type |-> 8,     vlen |-> 16, var |-> "ord"],      \*  8 MESSAGE-INTEGRITY of a wrong length (the parser does not mind)
  [type |-> 28,    vlen |-> 32, var |-> "ord"],      \*  9 MESSAGE-INTEGRITY-SHA256
  [type |-> 28,    vlen |-> 16, var |-> "ord"],      \* 10 truncated to 16
  [type |-> 28,    vlen |-> 18, var |-> "ord"],      \* 11 wrong length
  [type |-> 32808, vlen |-> 4,  var |-> "fpok"],     \* 12 FINGERPRINT, correct
  [type |-> 32808, vlen |-> 4,  var |-> "ord"],      \* 13 FINGERPRINT, wrong CRC
  [type |-> 32808, vlen |-> 8,  var |-> "ord"],      \* 14 FINGERPRINT, wrong length
  [type |-> 32808, vlen |-> 2,  var |-> "ord"],      \* 15 FINGERPRINT, too short
  [type |-> 36,    vlen |-> 4,  var |-> "ord"],      \* 16 PRIORITY
  [type |-> 32802, vlen |-> 8,  var |-> "fplike"],   \* 17 SOFTWARE whose value reads like a FINGERPRINT attribute
  [type |-> 65280, vlen |-> 24, var |-> "milike"],   \* 18 unknown attribute whose value reads like a MESSAGE-INTEGRITY attribute
  [type |-> 6,     vlen |-> 12, var |-> "hdrlike"],  \* 19 USERNAME whose value reads like attribute headers (type 0x0008 len 0 ...)
  [type |-> 0,     vlen |-> 1,  var |-> "ord"],      \* 20 reserved type 0x0000
  [type |-> 8,     vlen |-> 20, var |-> "tailfp"],   \* 21 MESSAGE-INTEGRITY whose last 8 value bytes read like a FINGERPRINT attribute
  [type |-> 28,    vlen |-> 32, var |-> "tailfp"],   \* 22 MESSAGE-INTEGRITY-SHA256, likewise (a message may END in these bytes)
  [type |-> 8,     vlen |-> 1,  var |-> "ord"],      \* 23 MESSAGE-INTEGRITY of 1 byte (3 padding bytes): hidden behind a SHA-256 attribute it must be stepped over whole
  [type |-> 8,     vlen |-> 18, var |-> "ord"],      \* 24 MESSAGE-INTEGRITY of 18 bytes (2 padding bytes)
  [type |-> 8,     vlen |-> 23, var |-> "ord"]       \* 25 MESSAGE-INTEGRITY of 23 bytes (1 padding byte)
>>

\* header variants: top two bits, cookie, class, method, declared length relative to the real body length
Headers == <<
  [top |-> 0, cookie |-> TRUE,  class |-> "request",    method |-> 1,    decl |-> 0],
  [top |-> 0, cookie |-> TRUE,  class |-> "error",      method |-> 4095, decl |-> 0],
  [top |-> 0, cookie |-> TRUE,  class |-> "indication", method |-> 2730, decl |-> 0],
  [top |-> 0, cookie |-> TRUE,  class |-> "success",    method |-> 128,  decl |-> 0],
  [top |-> 1, cookie |-> TRUE,  class |-> "request",    method |-> 1,    decl |-> 0],
  [top |-> 2, cookie |-> TRUE,  class |-> "request",    method |-> 1,    decl |-> 0],
  [top |-> 0, cookie |-> FALSE, class |-> "request",    method |-> 1,    decl |-> 0],
  [top |-> 0, cookie |-> TRUE,  class |-> "request",    method |-> 1,    decl |-> 4],
  [top |-> 0, cookie |-> TRUE,  class |-> "request",    method |-> 1,    decl |-> -4],
  [top |-> 0, cookie |-> TRUE,  class |-> "request",    method |-> 1,    decl |-> 1],
  [top |-> 0, cookie |-> TRUE,  class |-> "request",    method |-> 1,    decl |-> -1],
  [top |-> 0, cookie |-> TRUE,  class |-> "request",    method |-> 1,    decl |-> -8],
  [top |-> 3, cookie |-> FALSE, class |-> "request",    method |-> 1,    decl |-> 4],
  \* 14: the length field matches the bytes actually present, so a damaged last attribute is met by the TLV loop
  \*     itself and not by the length check of the header
  [top |-> 0, cookie |-> TRUE,  class |-> "request",    method |-> 1,    decl |-> 0, ofcut |-> TRUE]
>>

VARIABLES h,        \* index into Headers
          as,       \* sequence of indices into Alphabet
          defect    \* "none" or a defect of the last attribute
vars == <<h, as, defect>>

Tid == <<1, 2, 3, 4, 5, 6, 7, 8, 9, 10, 11, 12>>
Pattern(n, s) == [i \in 1..n |-> (i * 37 + s * 11) % 251]

HdrBytes(hh) ==
  LET f == TypeField(hh.class, hh.method) + hh.top * 16384 IN
  W16(f) \o <<0, 0>> \o (IF hh.cookie THEN MagicCookie ELSE <<33, 18, 164, 67>>) \o Tid

AttrBytes(a, pre, k) ==
  LET val == IF a.var = "fpok" THEN W32(X2(Crc32(SetLen(pre, Len(pre) + 8 - 20)), FpXor))
             ELSE IF a.var = "fplike" THEN <<128, 40, 0, 4>> \o Pattern(4, k)
             ELSE IF a.var = "milike" THEN <<0, 8, 0, 20>> \o Pattern(20, k)
             ELSE IF a.var = "tailfp" THEN Pattern(a.vlen - 8, k) \o <<128, 40, 0, 4>> \o Pattern(4, k)
             ELSE IF a.var = "hdrlike" THEN <<0, 8, 0, 0, 0, 28, 0, 0, 128, 40, 0, 0>>
             ELSE Pattern(a.vlen, k)
  IN W16(a.type) \o W16(a.vlen) \o val \o Zeros(Pad4(a.vlen) - a.vlen)

RECURSIVE Build(_, _, _)
Build(pre, s, k) == IF s = <<>> THEN pre ELSE Build(pre \o AttrBytes(Alphabet[Head(s)], pre, k), Tail(s), k + 1)

Damage(b, a, d) ==      \* b ends with attribute a (4 + padded bytes); apply the defect to that last attribute
  LET n == Len(b)  p == Pad4(a.vlen) - a.vlen IN
  IF d = "hdrcut" THEN SubSeq(b, 1, n - (4 + Pad4(a.vlen)) + 2)          \* 2 of the 4 header bytes
  ELSE IF d = "hdrcut1" THEN SubSeq(b, 1, n - (4 + Pad4(a.vlen)) + 1)    \* a single stray byte
  ELSE IF d = "hdrcut3" THEN SubSeq(b, 1, n - (4 + Pad4(a.vlen)) + 3)
  ELSE IF d = "valcut" THEN SubSeq(b, 1, n - p - 1)          \* one byte of the value missing (needs vlen >= 1)
  ELSE IF d = "padcut" THEN SubSeq(b, 1, n - 1)              \* one padding byte missing (needs p >= 1)
  ELSE b

Bytes ==
  LET hh == Headers[h]
      full == Build(HdrBytes(hh), as, 1)
      cut == IF defect = "none" THEN full ELSE Damage(full, Alphabet[as[Len(as)]], defect)
      \* the length field is computed for the undamaged body (a defect then shows as truncation at the header's
      \* length check) except for header variant 14
      decl == (IF "ofcut" \in DOMAIN hh THEN Len(cut) ELSE Len(full)) - 20 + hh.decl
  IN SetLen(cut, IF decl < 0 THEN 0 ELSE decl)

Init == h \in HeaderIds /\ as = <<>> /\ defect = "none"
AddAttr == /\ defect = "none" /\ Len(as) < MaxAttrs
          /\ \E x \in Letters : as' = Append(as, x)
          /\ UNCHANGED <<h, defect>>
Break == /\ defect = "none" /\ as # <<>>
         /\ \E d \in Defects :
              /\ (d = "valcut" => Alphabet[as[Len(as)]].vlen >= 1)
              /\ (d = "padcut" => Alphabet[as[Len(as)]].vlen % 4 # 0)
              /\ defect' = d
         /\ UNCHANGED <<h, as>>
Next == AddAttr \/ Break
Spec == Init /\ [][Next]_vars

-----------------------------------------------------------------------------
B == Bytes
\* C02: the operational parser accepts exactly the well-formed messages ...
AcceptIffWellFormed == Parse(B).ok = WellFormed(B)
\* ... and the error it reports is one the buffer justifies
ErrorIsACause == LET p == Parse(B) IN
  p.ok \/ <<p.err, IF "type" \in DOMAIN p THEN p.type ELSE -1>> \in Causes(B)
RejectedHasCause == Parse(B).ok <=> Causes(B) = {}
CausesAgree == Causes(B) = CausesDecl(B)          \* the linear formulation is the declarative one
\* C02 "truncated with the byte counts": whichever truncation is reported, its sizes describe the buffer - what is
\* available is the buffer's length and more than that is needed (how much more is fixed only for cuts at the header
\* level, `exact`).  The one exception is documented as-is: a FINGERPRINT value of a wrong length may be reported as
\* a truncated VALUE with the value's own sizes (App. B of DESIGN.md).
TruncationDescribes == LET p == Parse(B) IN
  (~p.ok /\ p.err = "Truncated" /\ ~ \E c \in Causes(B) : c[1] = "InvalidAttributeData")
    => (p.actual = Len(B) /\ p.expected > p.actual)

\* C10 on accepted messages
ExposureInv ==
  Parse(B).ok =>
    LET all == Attrs(B)  e == Exposed(all)  f == FirstIntegIdx(all)  plan == IntegrityPlan(B) IN
    /\ \A i \in 1..Len(e) : \E j \in 1..Len(all) : all[j] = e[i]                       \* only real attributes
    /\ \A i \in 1..(Len(e) - 1) : e[i].off < e[i + 1].off                              \* in message order, no repeats
    /\ (f = 0) => e = all                                                             \* no integrity: everything
    /\ (f # 0) => /\ SubSeq(e, 1, f) = SubSeq(all, 1, f)                              \* up to and incl. the first integrity attribute
                  /\ \A i \in (f + 1)..Len(e) : e[i].type \in {MI256, FP}
                  /\ \A i \in (f + 1)..Len(e) : e[i].type = MI256 => (all[f].type = MI /\ e[i] = all[f + 1])
    /\ (\E j \in 1..Len(all) : all[j].type = FP) => (\E i \in 1..Len(e) : e[i].type = FP)   \* FINGERPRINT always exposed
    \* every exposed attribute other than integrity/fingerprint lies inside the bytes the checked HMAC covers
    /\ plan.present => \A i \in 1..Len(e) : e[i].type \notin Ending => AttrEnd(e[i]) <= plan.off
    /\ plan.present = (f # 0)

\* (an invariant that is always true: evaluated once per distinct state, i.e. once per message)
EmitCase == PrintT("CASE " \o ToJson([bytes |-> B, h |-> h, as |-> as, defect |-> defect]))
=============================================================================
