-------------------------- MODULE StunTcpExchange --------------------------
(***************************************************************************)
(* STUN over a byte stream: a client StunAgent with the TCP transport, a   *)
(* server, and between them two reliable, ordered byte streams that        *)
(* deliver in arbitrary segments.  Every message is framed as the          *)
(* application must frame it for TcpBuffer (RFC 4571: two length digits,   *)
(* then the payload); each receiving end is the TcpFraming specification   *)
(* (INSTANCE), the client agent is the StunAgent specification (INSTANCE,  *)
(* Udp = FALSE).                                                           *)
(*                                                                         *)
(* A message is abstracted to two payload bytes (each encodes kind,       *)
(* transaction id and part), so that a segment boundary can fall inside    *)
(* the length prefix, between prefix and payload, inside the payload and   *)
(* between frames.  The composition states what the pieces promise         *)
(* together:                                                               *)
(*   - whatever the segmentation, each end pulls exactly the frames that   *)
(*     were sent to it, in order, each once (C14 end to end);              *)
(*   - over TCP a request is transmitted once: nothing is retransmitted,   *)
(*     it completes with its response or with the one final timeout (C06); *)
(*   - a response completes its transaction at most once; one that comes   *)
(*     after the timeout is dropped (C05).                                 *)
(***************************************************************************)
EXTENDS Integers, Sequences, FiniteSets, TLC, Json

CONSTANTS Tids, Keys, None, Corrupt, DefLast, IdleWait,
          Radix,          \* radix of the two length digits (3 suffices for payloads of two bytes; at most 10)
          MaxChunk,       \* longest segment the streams deliver at once
          MaxSends,       \* bound on the number of requests the client transmits in a behaviour
          MaxTime, TickSet

Udp == FALSE
DefSched == <<>>
ServerAddr == "srv"
Addrs == {ServerAddr}
Payloads == {"req"}

VARIABLES out, validated, rcred, lcred, act,    \* the client agent
          cbuf, sbuf,      \* TcpBuffer of the client (fed by the stream from the server) and of the server
          tact,            \* last TcpBuffer call and its reply
          c2s, s2c,        \* bytes written to a stream and not yet delivered
          lbl, now,
          sent, pulled     \* ghosts: [dir -> sequence of messages framed into / pulled out of that direction]

C == INSTANCE StunAgent
CB == INSTANCE TcpFraming WITH buf <- cbuf, act <- tact
SB == INSTANCE TcpFraming WITH buf <- sbuf, act <- tact

agent == <<out, validated, rcred, lcred>>
vars == <<agent, act, cbuf, sbuf, tact, c2s, s2c, lbl, now, sent, pulled>>
core == <<agent, cbuf, sbuf, c2s, s2c, now, sent, pulled>>

\* bytes are naturals, as in the code: length digits are below Radix, payload bytes are 10 and above and encode
\* (kind, transaction id, part)
Msg(kind, t) == [kind |-> kind, tid |-> t]
Code(m, part) == 10 + (IF m.kind = "resp" THEN 100 ELSE 0) + 2 * m.tid + (part - 1)
Body(m) == <<Code(m, 1), Code(m, 2)>>
Frame(m) == <<Len(Body(m)) \div Radix, Len(Body(m)) % Radix>> \o Body(m)
MsgOf(bytes) == LET c == bytes[1] - 10 IN [kind |-> IF c >= 100 THEN "resp" ELSE "req", tid |-> (c % 100) \div 2]

RECURSIVE Flat(_)
Flat(ms) == IF ms = <<>> THEN <<>> ELSE Frame(Head(ms)) \o Flat(Tail(ms))

Init == /\ C!Init /\ cbuf = <<>> /\ sbuf = <<>> /\ tact = [name |-> "init"] /\ c2s = <<>> /\ s2c = <<>>
        /\ lbl = [op |-> "init"] /\ now = 0
        /\ sent = [d \in {"c2s", "s2c"} |-> <<>>] /\ pulled = [d \in {"c2s", "s2c"} |-> <<>>]

\* the client sends a request: the application frames the Transmit and writes it to the stream
ClientSend(t) ==
  /\ Len(sent["c2s"]) < MaxSends
  /\ C!SendRequest(t, ServerAddr, FALSE, "req", now)
  /\ lbl' = [op |-> "send", tid |-> t]
  /\ IF act'.reply.k = "transmit"
       THEN c2s' = c2s \o Frame(Msg("req", t)) /\ sent' = [sent EXCEPT !["c2s"] = Append(@, Msg("req", t))]
       ELSE UNCHANGED <<c2s, sent>>
  /\ UNCHANGED <<cbuf, sbuf, tact, s2c, now, pulled>>
\* poll: over TCP it never asks for a transmission (checked below), only waits or times out
ClientPoll ==
  /\ C!Poll(now)
  /\ lbl' = [op |-> "poll"]
  /\ IF act'.reply.k = "transmit"
       THEN c2s' = c2s \o Frame(Msg("req", act'.reply.tid)) /\ sent' = [sent EXCEPT !["c2s"] = Append(@, Msg("req", act'.reply.tid))]
       ELSE UNCHANGED <<c2s, sent>>
  /\ UNCHANGED <<cbuf, sbuf, tact, s2c, now, pulled>>
Tick(d) == /\ now + d <= MaxTime /\ now' = now + d /\ lbl' = [op |-> "tick", d |-> d]
           /\ UNCHANGED <<agent, act, cbuf, sbuf, tact, c2s, s2c, sent, pulled>>

\* a stream delivers its next k bytes: they are pushed into the receiver's TcpBuffer
Deliver(dir, k) ==
  /\ k >= 1
  /\ lbl' = [op |-> "deliver", dir |-> dir, k |-> k]
  /\ IF dir = "c2s"
       THEN /\ k <= Len(c2s) /\ SB!Push(SubSeq(c2s, 1, k)) /\ c2s' = SubSeq(c2s, k + 1, Len(c2s)) /\ UNCHANGED <<cbuf, s2c>>
       ELSE /\ k <= Len(s2c) /\ CB!Push(SubSeq(s2c, 1, k)) /\ s2c' = SubSeq(s2c, k + 1, Len(s2c)) /\ UNCHANGED <<sbuf, c2s>>
  /\ UNCHANGED <<agent, act, now, sent, pulled>>

\* the server pulls: a complete frame is a request, answered at once with a framed success response
ServerPull ==
  /\ SB!Pull
  /\ lbl' = [op |-> "server_pull"]
  /\ IF tact'.reply.k = "frame"
       THEN LET m == MsgOf(tact'.reply.bytes)  r == Msg("resp", m.tid) IN
            /\ pulled' = [pulled EXCEPT !["c2s"] = Append(@, m)]
            /\ s2c' = s2c \o Frame(r) /\ sent' = [sent EXCEPT !["s2c"] = Append(@, r)]
       ELSE UNCHANGED <<pulled, s2c, sent>>
  /\ UNCHANGED <<agent, act, cbuf, c2s, now>>
\* the client pulls: a complete frame is a response and goes to the agent
ClientPull ==
  /\ CB!Pull
  /\ lbl' = [op |-> "client_pull"]
  /\ IF tact'.reply.k = "frame"
       THEN LET m == MsgOf(tact'.reply.bytes) IN
            /\ pulled' = [pulled EXCEPT !["s2c"] = Append(@, m)]
            /\ C!HandleResponse(m.tid, ServerAddr, None)
       ELSE UNCHANGED <<pulled, agent, act>>
  /\ UNCHANGED <<sbuf, c2s, s2c, now, sent>>

Next ==
  \/ \E t \in Tids : ClientSend(t)
  \/ ClientPoll
  \/ \E d \in TickSet : Tick(d)
  \/ \E dir \in {"c2s", "s2c"}, k \in 1..MaxChunk : Deliver(dir, k)
  \/ ServerPull \/ ClientPull
Spec == Init /\ [][Next]_vars

-----------------------------------------------------------------------------
IsPrefix(a, b) == Len(a) <= Len(b) /\ a = SubSeq(b, 1, Len(a))
\* each end pulls exactly the frames sent to it, in order, each once
InOrderOnce == \A d \in {"c2s", "s2c"} : IsPrefix(pulled[d], sent[d])
\* no byte is lost, invented or reordered: what was framed = what was pulled, then what the buffer holds, then what
\* the stream still carries
Conservation ==
  /\ Flat(sent["c2s"]) = Flat(pulled["c2s"]) \o sbuf \o c2s
  /\ Flat(sent["s2c"]) = Flat(pulled["s2c"]) \o cbuf \o s2c
\* the server answers what it pulled, nothing else
ServerAnswersRequests == sent["s2c"] = [i \in 1..Len(pulled["c2s"]) |-> Msg("resp", pulled["c2s"][i].tid)]
\* over TCP poll never transmits: every request is on the wire exactly once
NoRetransmission == [][lbl'.op = "poll" => act'.reply.k # "transmit"]_vars
\* a response is handed up only for a transaction that is outstanding, and completes it
ResponseCompletes ==
  [][(lbl'.op = "client_pull" /\ tact'.reply.k = "frame") =>
       LET t == MsgOf(tact'.reply.bytes).tid IN
         IF t \in DOMAIN out THEN act'.reply.k = "response" /\ t \notin DOMAIN out'
                             ELSE act'.reply.k = "drop" /\ UNCHANGED agent]_vars
\* pulling an incomplete buffer changes nothing anywhere
EmptyPullIsNoOp ==
  [][(lbl'.op \in {"client_pull", "server_pull"} /\ tact'.reply.k = "none") => UNCHANGED <<agent, cbuf, sbuf, c2s, s2c, sent, pulled>>]_vars
\* everything in a receive buffer or on a stream is a sequence of whole or partial frames in sending order (follows
\* from Conservation; stated separately because it is what a reader of the code expects)
TypeOK == /\ \A d \in {"c2s", "s2c"} : Len(pulled[d]) <= Len(sent[d])
          /\ Len(sent["c2s"]) <= MaxSends

-----------------------------------------------------------------------------
RECURSIVE SortedSeq(_)
SortedSeq(S) == IF S = {} THEN <<>> ELSE LET m == CHOOSE x \in S : \A y \in S : x <= y IN <<m>> \o SortedSeq(S \ {m})
OutArr(o) == [i \in 1..Cardinality(DOMAIN o) |-> LET t == SortedSeq(DOMAIN o)[i] IN <<t, o[t].lastSend>>]
Units(s) == s
\* state for the LTS dump (ghosts left out: they do not influence behaviour)
StateArr(o, v, cb, sb, cs, sc, n, se) == <<OutArr(o), ServerAddr \in v, Units(cb), Units(sb), Units(cs), Units(sc), n, Len(se["c2s"])>>
FrameReply(ta) == IF "reply" \in DOMAIN ta THEN (IF ta.reply.k = "frame" THEN <<"frame", MsgOf(ta.reply.bytes).kind, MsgOf(ta.reply.bytes).tid>> ELSE <<"none">>) ELSE <<"-">>
Emit == PrintT("EDGE " \o ToJson(<<StateArr(out, validated, cbuf, sbuf, c2s, s2c, now, sent), lbl',
                                   [agent |-> IF lbl'.op \in {"send", "poll"} \/ (lbl'.op = "client_pull" /\ tact'.reply.k = "frame")
                                                THEN act'.reply ELSE [k |-> "-"],
                                    tcp |-> IF lbl'.op \in {"client_pull", "server_pull"} THEN FrameReply(tact') ELSE <<"-">>],
                                   StateArr(out', validated', cbuf', sbuf', c2s', s2c', now', sent')>>))
=============================================================================
