SPECIFICATION Spec
CONSTANTS
  Tids = {1, 2}
  Addrs = {"a1", "a2"}
  Keys = {"k1", "k2"}
  Payloads = {"p1"}
  None = "none"
  Corrupt = "corrupt"
  Udp = TRUE
  DefSched <- Sched_12
  DefLast = 1
  IdleWait = 3600
  D = 1
  MaxTime = 4
  TickSet = {1, 2}
  ToAddrs = {"a1"}
  FromAddrs = {"a2"}
  SealedOpts = {TRUE, FALSE}
  IntegOpts = {"none", "k1"}
  CfgIds = {4}
  RemoteKeys = {"k1"}
INVARIANTS ShiftInv SameChoices
PROPERTIES NoLeak ReplyShift
VIEW core
CHECK_DEADLOCK FALSE
