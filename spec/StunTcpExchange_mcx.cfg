SPECIFICATION Spec
CONSTANTS
  Tids = {1, 2}
  Keys = {"k1"}
  None = "none"
  Corrupt = "corrupt"
  DefLast = 2
  IdleWait = 3600
  Radix = 3
  MaxChunk = 6
  MaxSends = 4
  MaxTime = 4
  TickSet = {1}
INVARIANTS InOrderOnce Conservation ServerAnswersRequests TypeOK
PROPERTIES NoRetransmission ResponseCompletes EmptyPullIsNoOp
VIEW core
CHECK_DEADLOCK FALSE
