--------------------------- MODULE TcpFramingInd ---------------------------
(***************************************************************************)
(* The framing argument of TcpFraming.tla as an inductive invariant, for   *)
(* Apalache: with ghost variables `pushed` (every byte ever pushed) and    *)
(* `framed` (the frames pulled so far, re-framed and concatenated)         *)
(*     pushed = framed \o buf                                              *)
(* holds initially and is preserved by every Push and every Pull, for      *)
(* buffers and chunks of any content up to the bounded lengths.            *)
(* Push and Pull are those of TcpFraming.tla without the observation       *)
(* variable `act` (whose two record shapes have no common Apalache type).  *)
(***************************************************************************)
EXTENDS Integers, Sequences, Apalache

CONSTANT
  \* @type: Int;
  Radix

VARIABLES
  \* @type: Seq(Int);
  buf,
  \* @type: Seq(Int);
  pushed,
  \* @type: Seq(Int);
  framed

\* @type: (Seq(Int)) => Int;
FrameLen(b) == b[1] * Radix + b[2]
\* @type: (Seq(Int)) => Bool;
Complete(b) == Len(b) >= 2 /\ Len(b) >= 2 + FrameLen(b)

ConstInit == Radix = 4

\* bytes are digits; nothing else is assumed about the buffer
\* @type: (Seq(Int)) => Bool;
Digits(s) == \A i \in DOMAIN s : s[i] \in 0..(Radix - 1)

Init == buf = <<>> /\ pushed = <<>> /\ framed = <<>>

Push(chunk) ==
  /\ buf' = buf \o chunk
  /\ pushed' = pushed \o chunk
  /\ UNCHANGED framed

Pull ==
  IF Complete(buf)
    THEN LET n == FrameLen(buf) IN
         /\ buf' = SubSeq(buf, 3 + n, Len(buf))
         /\ framed' = framed \o SubSeq(buf, 1, 2 + n)      \* the two length digits and the payload handed out
         /\ UNCHANGED pushed
    ELSE UNCHANGED <<buf, pushed, framed>>

Next == (\E chunk \in {Gen(6)} : Digits(chunk) /\ Push(chunk)) \/ Pull

IndInv == /\ pushed = framed \o buf
          /\ Digits(buf) /\ Digits(framed)
IndInit == /\ buf = Gen(14) /\ framed = Gen(8) /\ pushed = framed \o buf
           /\ Digits(buf) /\ Digits(framed)
=============================================================================
