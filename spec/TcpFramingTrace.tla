--------------------------- MODULE TcpFramingTrace ---------------------------
(***************************************************************************)
(* Trace validation for TcpBuffer: a reset line carries the frames that    *)
(* will be sent; push lines carry the chunk, pull lines the result.  The   *)
(* recorded run must be a behaviour of TcpFraming, and the framing         *)
(* invariants (prefix, conservation) are checked on it at every step.      *)
(***************************************************************************)
EXTENDS MCTcpFraming, IOUtils

Rec == ndJsonDeserialize(IOEnv.TRACE)
VARIABLE l
tvars == <<mcvars, l>>
R == Rec[l]
Ev(n) == l <= Len(Rec) /\ Rec[l].ev = n /\ l' = l + 1

TInit == Init /\ frames = <<>> /\ stream = <<>> /\ pulled = <<>> /\ l = 1
TReset == /\ Ev("reset")
          /\ buf' = <<>> /\ act' = [name |-> "init"]
          /\ frames' = R.frames /\ stream' = Flat(R.frames) \o R.tail /\ pulled' = <<>>
TPush == /\ Ev("push")
         /\ Len(R.bytes) <= Len(stream) /\ SubSeq(stream, 1, Len(R.bytes)) = R.bytes   \* the driver pushes the stream in order
         /\ Push(R.bytes)
         /\ stream' = SubSeq(stream, Len(R.bytes) + 1, Len(stream))
         /\ UNCHANGED <<frames, pulled>>
TPull == Ev("pull") /\ MCPull /\ act'.reply = R.ret
TNext == TReset \/ TPush \/ TPull
TSpec == TInit /\ [][TNext]_tvars

TPrefixInv == IsPrefixOf(pulled, frames)
TPullStep == [][act'.name = "pull" =>
                 /\ (act'.reply.k = "none") <=> ~Complete(buf)
                 /\ (act'.reply.k = "frame") => (Len(pulled) < Len(frames) /\ act'.reply.bytes = frames[Len(pulled) + 1])]_tvars
Accepted ==
  IF TLCGet("stats").diameter - 1 = Len(Rec) THEN TRUE
  ELSE /\ PrintT("REJECTED " \o ToString(TLCGet("stats").diameter))
       /\ FALSE
=============================================================================
