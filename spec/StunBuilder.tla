----------------------------- MODULE StunBuilder -----------------------------
(***************************************************************************)
(* MessageBuilder of stun-types as a state machine over the abstract       *)
(* attribute list (C11), its serialisation (C12) and the composition with  *)
(* the parser specification (C03: whatever the builder serialises is       *)
(* accepted and exposes exactly the builder's attributes).                 *)
(* HMAC is not modelled: integrity attributes carry placeholder bytes      *)
(* here; their real value is checked through IntegrityPlan + oracle (C04). *)
(***************************************************************************)
EXTENDS StunMessage, TLC, Json

CONSTANTS OrdKinds,     \* ordinary attribute kinds usable with add_attribute / add_raw_attribute
          MaxOps        \* bound on the number of successful additions (the list cannot grow beyond the kinds anyway)

\* kind -> wire type and concrete value used for serialisation
KindType(k) == CASE k = "A" -> 32802 [] k = "B" -> 32810 [] k = "R" -> 32520 [] k = "U" -> 6 [] k = "Z" -> 0
                 [] k = "MI" -> 8 [] k = "MI256" -> 28 [] k = "FP" -> 32808
KindValue(k) == CASE k = "A" -> <<97, 98>>                 \* SOFTWARE "ab" (2 padding bytes)
                  [] k = "B" -> <<0, 0, 0, 0, 0, 0, 1, 44>>  \* ICE-CONTROLLING 300: aligned, and a type code above FINGERPRINT's
                  [] k = "R" -> <<1, 2, 3>>                \* unknown 0x7f08 (low byte = MESSAGE-INTEGRITY's), 1 padding byte
                  [] k = "U" -> <<>>                       \* USERNAME ""
                  [] k = "Z" -> <<5>>                      \* raw attribute of the reserved type 0x0000
                  [] k = "MI" -> [i \in 1..20 |-> 160 + i]
                  [] k = "MI256" -> [i \in 1..32 |-> 200 + i]
                  [] k = "FP" -> <<0, 0, 0, 0>>            \* placeholder, see Serialize

VARIABLES attrs,   \* sequence of kinds, in insertion order
          act      \* last operation and its result
vars == <<attrs, act>>
core == <<attrs>>

Kinds(s) == {s[i] : i \in 1..Len(s)}
\* has_any_attribute: the first attribute of the builder (in insertion order) whose kind is in S, or "none"
FirstOf(s, S) == IF \E i \in 1..Len(s) : s[i] \in S
                   THEN s[CHOOSE i \in 1..Len(s) : s[i] \in S /\ \A j \in 1..(i - 1) : s[j] \notin S]
                   ELSE "none"

Init == attrs = <<>> /\ act = [op |-> "init"]

\* add_attribute / add_raw_attribute of an ordinary kind
AddOrd(op, k) ==
  LET hit == FirstOf(attrs, {k, "MI", "MI256", "FP"}) IN
  IF hit = "none"
    THEN attrs' = Append(attrs, k) /\ act' = [op |-> op, kind |-> k, res |-> [ok |-> TRUE]]
    ELSE /\ UNCHANGED attrs
         /\ act' = [op |-> op, kind |-> k,
                    res |-> IF hit \in {"MI", "MI256"} THEN [ok |-> FALSE, err |-> "MessageIntegrityExists"]
                            ELSE IF hit = "FP" THEN [ok |-> FALSE, err |-> "FingerprintExists"]
                            ELSE [ok |-> FALSE, err |-> "AttributeExists", type |-> KindType(k)]]
\* add_attribute / add_raw_attribute of MESSAGE-INTEGRITY(-SHA256) / FINGERPRINT: documented panic
AddForbidden(op, k) == UNCHANGED attrs /\ act' = [op |-> op, kind |-> k, res |-> [ok |-> FALSE, err |-> "panic"]]

AddIntegrity(alg) ==
  LET k == IF alg = "sha1" THEN "MI" ELSE "MI256"
      hit == FirstOf(attrs, IF alg = "sha1" THEN {"MI", "MI256", "FP"} ELSE {"MI256", "FP"}) IN
  IF hit = "none"
    THEN attrs' = Append(attrs, k) /\ act' = [op |-> "add_integrity", kind |-> k, res |-> [ok |-> TRUE]]
    ELSE /\ UNCHANGED attrs
         /\ act' = [op |-> "add_integrity", kind |-> k,
                    res |-> IF hit = "FP" THEN [ok |-> FALSE, err |-> "FingerprintExists"]
                            ELSE [ok |-> FALSE, err |-> "AttributeExists", type |-> KindType(hit)]]
AddFingerprint ==
  IF "FP" \notin Kinds(attrs)
    THEN attrs' = Append(attrs, "FP") /\ act' = [op |-> "add_fingerprint", kind |-> "FP", res |-> [ok |-> TRUE]]
    ELSE UNCHANGED attrs /\ act' = [op |-> "add_fingerprint", kind |-> "FP", res |-> [ok |-> FALSE, err |-> "AttributeExists", type |-> 32808]]
\* into_owned() and clone(): the same builder again
Same(op) == UNCHANGED attrs /\ act' = [op |-> op, kind |-> "-", res |-> [ok |-> TRUE]]

Next ==
  \/ \E k \in OrdKinds : AddOrd("add_attribute", k) \/ AddOrd("add_raw_attribute", k)
  \/ \E k \in {"MI", "MI256", "FP"} : AddForbidden("add_attribute", k) \/ AddForbidden("add_raw_attribute", k)
  \/ AddIntegrity("sha1") \/ AddIntegrity("sha256")
  \/ AddFingerprint
  \/ Same("into_owned") \/ Same("clone")
Spec == Init /\ [][Next]_vars

-----------------------------------------------------------------------------
(* Serialisation: header (request, method 1, fixed id) and the attributes as padded TLVs; the length field is
   the total minus 20; a FINGERPRINT carries the CRC of everything before it. *)
BTid == <<9, 8, 7, 6, 5, 4, 3, 2, 1, 0, 11, 12>>
RECURSIVE Ser(_, _)
Ser(pre, s) ==
  IF s = <<>> THEN pre
  ELSE LET k == Head(s)
           v == IF k = "FP" THEN W32(X2(Crc32(SetLen(pre, Len(pre) + 8 - 20)), FpXor)) ELSE KindValue(k)
       IN Ser(pre \o W16(KindType(k)) \o W16(Len(v)) \o v \o Zeros(Pad4(Len(v)) - Len(v)), Tail(s))
Serialize(s) == LET b == Ser(HeaderBytes("request", 1, 0, BTid), s) IN SetLen(b, Len(b) - 20)
ByteLen(s) == Len(Serialize(s))

-----------------------------------------------------------------------------
(* C11 *)
\* the list obeys the ordering rules at all times
Ordered == \A i \in 1..Len(attrs) :
   /\ \A j \in 1..(i - 1) : attrs[j] # attrs[i]                                  \* one attribute per type
   /\ (\E j \in 1..(i - 1) : attrs[j] = "FP") => FALSE                           \* nothing after FINGERPRINT
   /\ (\E j \in 1..(i - 1) : attrs[j] = "MI256") => attrs[i] = "FP"              \* after SHA-256 only FINGERPRINT
   /\ (\E j \in 1..(i - 1) : attrs[j] = "MI") => attrs[i] \in {"MI256", "FP"}
\* an addition is refused exactly when C11 says so; a refused operation leaves the builder as it was
RefusalRule == [][
   /\ (act'.op \in {"add_attribute", "add_raw_attribute"} /\ act'.kind \in OrdKinds) =>
        (act'.res.ok <=> (act'.kind \notin Kinds(attrs) /\ Kinds(attrs) \cap {"MI", "MI256", "FP"} = {}))
   /\ (act'.op = "add_integrity" /\ act'.kind = "MI") => (act'.res.ok <=> Kinds(attrs) \cap {"MI", "MI256", "FP"} = {})
   /\ (act'.op = "add_integrity" /\ act'.kind = "MI256") => (act'.res.ok <=> Kinds(attrs) \cap {"MI256", "FP"} = {})
   /\ (act'.op = "add_fingerprint") => (act'.res.ok <=> "FP" \notin Kinds(attrs))
   /\ (~act'.res.ok) => attrs' = attrs
   /\ (act'.res.ok /\ act'.kind # "-") => attrs' = Append(attrs, act'.kind)]_vars
\* C03 / last sentence of C11, structurally: the serialised message is accepted by the parser specification, exposes
\* exactly the builder's attributes in order, its length is a multiple of 4 and the header says length - 20
Composition ==
  LET b == Serialize(attrs)  all == Attrs(b)  e == Exposed(all) IN
  /\ Parse(b).ok /\ WellFormed(b)
  /\ Len(b) % 4 = 0 /\ U16(b, 3) = Len(b) - 20
  /\ Len(e) = Len(attrs)
  /\ \A i \in 1..Len(attrs) : e[i].type = KindType(attrs[i]) /\ (attrs[i] # "FP" => Value(b, e[i]) = KindValue(attrs[i]))
  /\ IntegrityPlan(b).present = (Kinds(attrs) \cap {"MI", "MI256"} # {})
  /\ IntegrityPlan(b).present => IntegrityPlan(b).alg = (IF "MI256" \in Kinds(attrs) THEN "sha256" ELSE "sha1")

StateJson(s) == [attrs |-> s, len |-> ByteLen(s),
                 has |-> [k \in {"A", "B", "R", "U", "Z", "MI", "MI256", "FP"} |-> k \in Kinds(s)],
                 types |-> [i \in 1..Len(s) |-> KindType(s[i])]]
Emit == PrintT("EDGE " \o ToJson([src |-> StateJson(attrs), act |-> act', dst |-> StateJson(attrs')]))
KindTable == [k \in {"A", "B", "R", "U", "Z", "MI", "MI256", "FP"} |-> [type |-> KindType(k), value |-> KindValue(k)]]
ASSUME PrintT("KINDS " \o ToJson(KindTable))
=============================================================================
