SPECIFICATION MCSpec
CONSTANTS
  Tids = {1, 2, 3}
  Addrs = {"a1", "a2", "a3"}
  Keys = {"k1", "k2"}
  Payloads = {"p1"}
  None = "none"
  Corrupt = "corrupt"
  Udp = TRUE
  DefSched <- Sched_1
  DefLast = 1
  IdleWait = 3600
  MaxTime = 2
  TickSet = {1}
  ToAddrs = {"a1"}
  FromAddrs = {"a2"}
  SealedOpts = {TRUE, FALSE}
  IntegOpts = {"none", "k1"}
  CfgIds = {}
  RemoteKeys = {"k1"}
  LocalKeys = {}
  OtherCls = {}
  InCls = {"request"}
  CancelOps = {"cancel", "cancel_rt"}
  Horizon = 6
VIEW core
CHECK_DEADLOCK FALSE
INVARIANTS MCTypeOK LifeInv ScheduleInv CancelInv PromiseInv PeerInv
PROPERTIES C05Prop C06Prop C07Prop C15Prop C18Prop
