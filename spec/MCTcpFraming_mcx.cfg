SPECIFICATION MCSpec
CONSTANTS
  Radix = 256
  Lens = {0, 1, 2}
  Bytes = {0, 1, 2}
  MaxStream = 11
  TailIds = {1, 2, 3, 4, 5}
INVARIANTS PrefixInv Conservation Drained
PROPERTIES PullStep
VIEW core
CHECK_DEADLOCK FALSE
