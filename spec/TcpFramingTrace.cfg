SPECIFICATION TSpec
CONSTANTS
  Radix = 256
  Lens = {}
  Bytes = {}
  MaxStream = 0
  TailIds = {}
INVARIANTS TPrefixInv
PROPERTIES TPullStep
POSTCONDITION Accepted
CHECK_DEADLOCK FALSE
