SPECIFICATION MCSpec
CONSTANTS
  Tids = {1}
  Addrs = {"a1", "a2", "a3"}
  Keys = {"k1", "k2"}
  Payloads = {"p1"}
  None = "none"
  Corrupt = "corrupt"
  Udp = FALSE
  DefSched <- Sched_none
  DefLast = 79
  IdleWait = 3600
  MaxTime = 80
  TickSet = {1, 2, 4, 8, 16, 63}
  ToAddrs = {"a1"}
  FromAddrs = {"a1"}
  SealedOpts = {FALSE}
  IntegOpts = {"none"}
  CfgIds = {}
  RemoteKeys = {}
  LocalKeys = {}
  OtherCls = {}
  InCls = {}
  CancelOps = {"cancel", "cancel_rt"}
  Horizon = 100
VIEW core
CHECK_DEADLOCK FALSE
INVARIANTS MCTypeOK LifeInv ScheduleInv CancelInv PromiseInv PeerInv
PROPERTIES C05Prop C06Prop C07Prop C15Prop C18Prop
