----------------------------- MODULE MCAgentInd -----------------------------
(***************************************************************************)
(* StunAgentInd.tla (the Apalache-typed timing/life-cycle core with the    *)
(* ghost built in) describes the same machine as StunAgent.tla + the ghost *)
(* of MCAgent.tla: on every transition TLC generates for a bounded MCAgent *)
(* model, the corresponding action of StunAgentInd holds between the       *)
(* images of the two states under the mapping below.  This is what ties    *)
(* the inductive invariant Apalache proves to the module that is bound to  *)
(* the implementation.                                                     *)
(***************************************************************************)
EXTENDS MCAgent

Op(t)  == t \in DOMAIN out
GO(t)  == g[t].st = "open"

I == INSTANCE StunAgentInd WITH
       ITids <- Tids, IUdp <- Udp, IDefSched <- DefSched, IDefLast <- DefLast,
       open     <- [t \in Tids |-> Op(t)],
       sched    <- [t \in Tids |-> IF Op(t) THEN out[t].sched ELSE <<>>],
       last     <- [t \in Tids |-> IF Op(t) THEN out[t].last ELSE 0],
       idx      <- [t \in Tids |-> IF Op(t) THEN out[t].idx ELSE 0],
       lastSend <- [t \in Tids |-> IF Op(t) THEN out[t].lastSend ELSE 0],
       sc       <- [t \in Tids |-> IF Op(t) THEN out[t].sc ELSE FALSE],
       rc       <- [t \in Tids |-> IF Op(t) THEN out[t].rc ELSE FALSE],
       gopen    <- [t \in Tids |-> GO(t)],
       ntx      <- [t \in Tids |-> IF GO(t) THEN g[t].ntx ELSE 0],
       lastTx   <- [t \in Tids |-> IF GO(t) THEN g[t].lastTx ELSE 0],
       dflt     <- [t \in Tids |-> IF GO(t) THEN g[t].dflt ELSE FALSE],
       grto     <- [t \in Tids |-> IF GO(t) THEN g[t].rto ELSE 0],
       gn       <- [t \in Tids |-> IF GO(t) THEN g[t].n ELSE 0],
       glast    <- [t \in Tids |-> IF GO(t) THEN g[t].last ELSE 0],
       crt      <- [t \in Tids |-> IF GO(t) THEN g[t].crt ELSE FALSE],
       cc       <- [t \in Tids |-> IF GO(t) THEN g[t].cc ELSE FALSE],
       probe    <- now, probe2 <- now

IndStep ==
  LET a == act' IN
    IF a.name = "send" /\ a.cls = "request" THEN I!ISend(a.tid, a.now)
    ELSE IF a.name = "recv" /\ a.cls = "response" /\ a.reply.k = "response" THEN I!IDeliver(a.tid)
    ELSE IF a.name = "poll" /\ a.reply.k = "wait" THEN I!IPollWait(a.now)
    ELSE IF a.name = "poll" THEN I!IPollServe(a.reply.tid, a.now)
    ELSE IF a.name = "cancel" THEN I!ICancel(a.tid)
    ELSE IF a.name = "cancel_rt" THEN I!ICancelRt(a.tid)
    ELSE IF a.name = "configure" THEN I!IConfigure(a.tid, a.rto, a.n, a.last)
    ELSE I!INoop
\* (probe/probe2 are mapped to the clock only so that the instance is complete; the actions leave them alone,
\*  so a tick, which changes nothing else, is exempt)
IndRefines == [][act'.name = "tick" \/ IndStep]_mcvars
\* the inductive invariant itself, at the current instant, on every reachable state of the bounded model
IndInvHere == I!IndInv
=============================================================================
