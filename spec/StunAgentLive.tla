---------------------------- MODULE StunAgentLive ----------------------------
(***************************************************************************)
(* Liveness half of C05: under an environment that lets time pass and      *)
(* keeps polling, every request handed to the agent eventually completes   *)
(* (delivered, timed out or cancelled) - it cannot stay outstanding for    *)
(* ever.  To make the state space finite without a time bound (a state     *)
(* constraint could hide a non-progress cycle) instants are replaced by    *)
(* AGES: age[t] = time since the last transmission of t, capped at Cap,    *)
(* the largest interval of the schedule.  The per-request decision is the  *)
(* same Svc as in StunAgent with lastSend + x > now rewritten as age < x.  *)
(***************************************************************************)
EXTENDS Integers, Sequences, FiniteSets

CONSTANTS Tids, Sched, Last, Cap, Sealed       \* Sealed \subseteq BOOLEAN: may requests carry integrity?

ASSUME Cap >= Last /\ \A i \in 1..Len(Sched) : Cap >= Sched[i]

VARIABLES out,      \* [subset of Tids -> [idx, age, sc, rc, sealed]]
          rcredSet  \* BOOLEAN: remote credentials configured
vars == <<out, rcredSet>>
Outstanding == DOMAIN out
SchedLive == <<1, 2>>
Drop(f, t) == [x \in DOMAIN f \ {t} |-> f[x]]

Svc(r) ==
  IF r.rc THEN "cancelled"
  ELSE IF r.idx >= Len(Sched) THEN (IF r.age < Last THEN "wait" ELSE "timeout")
  ELSE IF r.age < Sched[r.idx + 1] THEN "wait"
  ELSE IF r.sc THEN "cancelled" ELSE "send"

Init == out = <<>> /\ rcredSet = FALSE
Send(t) == /\ t \notin Outstanding
           /\ \E s \in Sealed : out' = [x \in Outstanding \cup {t} |-> IF x = t THEN [idx |-> 0, age |-> 0, sc |-> FALSE, rc |-> FALSE, sealed |-> s] ELSE out[x]]
           /\ UNCHANGED rcredSet
Tick == /\ out' = [t \in Outstanding |-> [out[t] EXCEPT !.age = IF @ < Cap THEN @ + 1 ELSE @]]
        /\ UNCHANGED rcredSet
PollServe(t) ==
  /\ t \in Outstanding /\ Svc(out[t]) # "wait"
  /\ out' = IF Svc(out[t]) = "send" THEN [out EXCEPT ![t].idx = @ + 1, ![t].age = 0] ELSE Drop(out, t)
  /\ UNCHANGED rcredSet
\* a response arrives: delivered if authentic (unsealed request, or credentials set and the right key), else dropped
Response(t, authentic) ==
  /\ t \in Outstanding
  /\ out' = IF ~out[t].sealed \/ (rcredSet /\ authentic) THEN Drop(out, t) ELSE out
  /\ UNCHANGED rcredSet
Cancel(t) == t \in Outstanding /\ out' = [out EXCEPT ![t].sc = TRUE, ![t].rc = TRUE] /\ UNCHANGED rcredSet
CancelRt(t) == t \in Outstanding /\ out' = [out EXCEPT ![t].sc = TRUE] /\ UNCHANGED rcredSet
SetCred == rcredSet' = TRUE /\ UNCHANGED out

Next == \/ \E t \in Tids : Send(t) \/ PollServe(t) \/ Cancel(t) \/ CancelRt(t) \/ \E a \in BOOLEAN : Response(t, a)
        \/ Tick \/ SetCred
\* environment assumption: time passes and the agent is polled when something is due
Fairness == WF_vars(Tick) /\ \A t \in Tids : WF_vars(PollServe(t))
Spec == Init /\ [][Next]_vars /\ Fairness

\* every transaction eventually completes, whatever else happens (forged responses, cancellations, other transactions)
Completes == \A t \in Tids : (t \in Outstanding) ~> (t \notin Outstanding)
\* and a transaction is retransmitted at most Len(Sched) times
BoundedRetrans == \A t \in Outstanding : out[t].idx <= Len(Sched)
=============================================================================
