------------------------------ MODULE MCAttrs ------------------------------
(* In-spec theorems about the attribute codecs, checked by TLC on complete small domains (C08, C13),
   and the judge for attribute cases recorded from the implementation (IOEnv.CASES). *)
EXTENDS StunAttrs, TLC, Json, IOUtils

Tid0 == <<1, 2, 3, 4, 5, 6, 7, 8, 9, 10, 11, 12>>
Pat(n, s) == [i \in 1..n |-> (i * 29 + s * 53) % 128]       \* ASCII, hence valid UTF-8
SampleValues == {Pat(n, s) : n \in 0..40, s \in 0..2}
\* every length 0..40 of every type, three contents each
ASSUME \A ty \in BuiltinTypes : \A v \in SampleValues : RoundTrip(ty, v, Tid0)
\* ERROR-CODE: all 65536 (class byte, number byte) pairs
ASSUME \A c \in 0..255 : \A x \in 0..255 :
   LET v == <<0, 0, c, x>> \o <<111, 107>> IN
     /\ (Verdict(ERRORCODE_T, v, Tid0) # "invalid") = ((c % 8) \in 3..6 /\ x <= 99)
     /\ (Verdict(ERRORCODE_T, v, Tid0) # "invalid") => (Fields(ERRORCODE_T, v, Tid0).code = (c % 8) * 100 + x /\ Fields(ERRORCODE_T, v, Tid0).code \in 300..699)
     /\ RoundTrip(ERRORCODE_T, v, Tid0)
\* addresses: every family byte, lengths around 8 and 20
ASSUME \A ty \in AddrTypes : \A fam \in 0..255 : \A n \in {4, 7, 8, 9, 19, 20, 21} :
   LET v == <<0, fam>> \o Pat(n - 2, fam) IN
     /\ (Verdict(ty, v, Tid0) = "valid") = ((fam = 1 /\ n = 8) \/ (fam = 2 /\ n = 20))
     /\ RoundTrip(ty, v, Tid0)
\* C13: XOR is an involution and injective in the key, byte-wise, for all byte pairs; ports likewise (all 65536)
ASSUME \A a \in 0..255 : \A b \in 0..255 : ((a ^^ b) ^^ b = a) /\ (\A c \in {0, 1, 128, 255, (b + 1) % 256} : (a ^^ b = a ^^ c) => b = c)
ASSUME \A p \in 0..65535 : U16(XorPort(XorPort(W16(p))), 1) = p /\ U16(XorPort(W16(p)), 1) = (p ^^ 8466)
\* the wire value of an XOR-MAPPED-ADDRESS is cookie/tid-keyed: decode(encode(a, t), t) = a, and an IPv6 value read under another id differs
ASSUME \A s \in 0..3 : LET ip6 == Pat(16, s)  f == [addr |-> [fam |-> 2, port |-> 3478 + s, ip |-> ip6]]
                           w == Encode(XORMAPPEDADDRESS, f, Tid0)  other == [Tid0 EXCEPT ![12] = 99] IN
     /\ Fields(XORMAPPEDADDRESS, w, Tid0) = f
     /\ Fields(XORMAPPEDADDRESS, w, other).addr.ip # ip6
     /\ SubSeq(w, 5, 8) = XorBytes(SubSeq(ip6, 1, 4), MagicCookie)
     /\ SubSeq(w, 9, 20) = XorBytes(SubSeq(ip6, 5, 16), Tid0)
ASSUME PrintT("ATTR-ALGEBRA-OK")

Cases == IF "CASES" \in DOMAIN IOEnv THEN ndJsonDeserialize(IOEnv.CASES) ELSE <<>>
Expect(i) ==
  LET c == Cases[i]  vd == Verdict(c.type, c.value, c.tid) IN
  [i |-> i, verdict |-> vd,
   fields |-> IF vd = "invalid" THEN [none |-> TRUE] ELSE Fields(c.type, c.value, c.tid),
   canon |-> IF vd = "invalid" THEN <<>> ELSE Wire(c.type, Encode(c.type, Fields(c.type, c.value, c.tid), c.tid)),
   wire |-> Wire(c.type, c.value)]
ASSUME \A i \in 1..Len(Cases) : PrintT("EXPECT " \o ToJson(Expect(i)))
ASSUME PrintT("JUDGED " \o ToString(Len(Cases)))
VARIABLE x
Init == x = 0
Next == UNCHANGED x
=============================================================================
