--------------------------- MODULE StunAgentTrace ---------------------------
(***************************************************************************)
(* Trace validation (implementation -> specification): a recorded run of   *)
(* the real StunAgent is accepted iff it is a behaviour of StunAgent in    *)
(* which every logged reply and every logged API-visible state equals the  *)
(* specification's, with the C05/C06/C07/C15/C18 step properties of        *)
(* MCAgent checked on every step.  Values are real: milliseconds relative  *)
(* to the run's base instant, the code's own default schedule.             *)
(*                                                                         *)
(* Run: TRACE=<file.ndjson> tlc -workers 1 (StateDeque), POSTCONDITION.    *)
(***************************************************************************)
EXTENDS MCAgent, IOUtils

Rec == ndJsonDeserialize(IOEnv.TRACE)

VARIABLE l                     \* next line of the trace
tvars == <<mcvars, l>>

RealUdpSched == <<500, 1000, 2000, 4000, 8000, 16000>>
RealUdpSchedUs == <<500000, 1000000, 2000000, 4000000, 8000000, 16000000>>     \* the same in microseconds
\* (the microsecond configurations set IdleWait = 1: the idle wake-up is as-is and never compared, and `now + 3600 s` in
\* microseconds would leave TLC's 32-bit integers once a history is older than 147 s - met in the thorough tier)

TInit == MCInit /\ l = 1

Ev(n) == l <= Len(Rec) /\ Rec[l].ev = n /\ l' = l + 1
R == Rec[l]
SeqSet(s) == {s[i] : i \in 1..Len(s)}

\* the API-visible state logged after the call equals the specification's
ObsOk == /\ SeqSet(R.out) = {<<t, out'[t].to>> : t \in DOMAIN out'}
         /\ SeqSet(R.val) = validated'
         /\ R.rcred = rcred' /\ R.lcred = lcred'
ReplyOk == act'.reply = R.ret
G == g' = UpdG(g, act')

TReset == /\ Ev("reset")
          /\ out' = <<>> /\ validated' = {} /\ rcred' = None /\ lcred' = None
          /\ act' = [name |-> "init"] /\ now' = 0 /\ g' = [t \in Tids |-> GClosed]
TSendReq == Ev("send_req") /\ SendRequest(R.tid, R.to, R.sealed, R.pay, R.now) /\ ReplyOk /\ ObsOk /\ now' = R.now /\ G
TSendOther == Ev("send_other") /\ (IF R.cls = "data" THEN SendData(R.to, R.pay) ELSE SendOther(R.cls, R.to, R.pay)) /\ ReplyOk /\ ObsOk /\ UNCHANGED now /\ G
TResp == Ev("recv_resp") /\ HandleResponse(R.tid, R.from, R.integ) /\ ReplyOk /\ ObsOk /\ UNCHANGED now /\ G
TInc == Ev("recv_other") /\ HandleIncoming(R.cls, R.from) /\ ReplyOk /\ ObsOk /\ UNCHANGED now /\ G
TPoll == /\ Ev("poll") /\ Poll(R.now) /\ ObsOk /\ now' = R.now /\ G
         /\ IF act'.reply.k = "wait"
              THEN R.ret.k = "wait" /\ (act'.reply.idle \/ act'.reply.until = R.ret.until)   \* idle wake-up: as-is
              ELSE act'.reply = R.ret
TCancel == Ev("cancel") /\ Cancel(R.tid) /\ ReplyOk /\ ObsOk /\ UNCHANGED now /\ G
TCancelRt == Ev("cancel_rt") /\ CancelRetrans(R.tid) /\ ReplyOk /\ ObsOk /\ UNCHANGED now /\ G
TCfg == Ev("configure") /\ Configure(R.tid, R.rto, R.n, R.last) /\ ReplyOk /\ ObsOk /\ UNCHANGED now /\ G
TSetR == Ev("set_remote") /\ SetRemote(R.key) /\ ObsOk /\ UNCHANGED now /\ G
TSetL == Ev("set_local") /\ SetLocal(R.key) /\ ObsOk /\ UNCHANGED now /\ G

TNext == TReset \/ TSendReq \/ TSendOther \/ TResp \/ TInc \/ TPoll \/ TCancel \/ TCancelRt \/ TCfg \/ TSetR \/ TSetL
TSpec == TInit /\ [][TNext]_tvars

\* the step properties of MCAgent, checked on the recorded run as well
\* (a reset line starts a new agent: no step property applies to it)
TStepProps == [][act'.name = "init" \/ (C05Step /\ NoTransmitAfterCancel /\ PollEventIffDue /\ AuthResponses /\ Validation /\ Transmissions)]_tvars

Accepted ==
  IF TLCGet("stats").diameter - 1 = Len(Rec) THEN TRUE
  ELSE /\ PrintT("REJECTED " \o ToString(TLCGet("stats").diameter))
       /\ PrintT(Rec[TLCGet("stats").diameter])
       /\ FALSE
=============================================================================
