--------------------------- MODULE StunAgentShift ---------------------------
(***************************************************************************)
(* C20 (sans-IO) as a relational property of the design: two copies of     *)
(* the agent receive the same call history, the second with every instant  *)
(* increased by D.  Invariant: the second copy's state and replies are     *)
(* those of the first with every instant increased by D, and at every poll *)
(* the same choices are open to both.  Since the module StunAgent has no   *)
(* clock and no variable other than its own state, this also shows that    *)
(* nothing ambient can influence a reply.                                  *)
(***************************************************************************)
EXTENDS Integers, Sequences, FiniteSets, TLC

CONSTANTS Tids, Addrs, Keys, Payloads, None, Corrupt, Udp, DefSched, DefLast, IdleWait,
          D, MaxTime, TickSet, ToAddrs, FromAddrs, SealedOpts, IntegOpts, CfgIds, RemoteKeys

VARIABLES outA, valA, rcA, lcA, actA, outB, valB, rcB, lcB, actB, now

A == INSTANCE StunAgent WITH out <- outA, validated <- valA, rcred <- rcA, lcred <- lcA, act <- actA
B == INSTANCE StunAgent WITH out <- outB, validated <- valB, rcred <- rcB, lcred <- lcB, act <- actB

Sched_none == <<>>
Sched_1    == <<1>>
Sched_12   == <<1, 2>>
CfgTable == << <<1, 0, 1>>, <<1, 1, 1>>, <<1, 2, 2>>, <<2, 1, 1>>, <<1, 1, 0>>, <<2, 0, 3>>, <<3, 2, 1>> >>

vars == <<outA, valA, rcA, lcA, actA, outB, valB, rcB, lcB, actB, now>>
core == <<outA, valA, rcA, lcA, outB, valB, rcB, lcB, now>>

Init == A!Init /\ B!Init /\ now = 0

Next ==
  \/ /\ now' = now
     /\ \/ \E t \in Tids, a \in ToAddrs, s \in SealedOpts, p \in Payloads :
              A!SendRequest(t, a, s, p, now) /\ B!SendRequest(t, a, s, p, now + D)
        \/ \E t \in Tids, a \in FromAddrs, i \in IntegOpts : A!HandleResponse(t, a, i) /\ B!HandleResponse(t, a, i)
        \/ \E a \in FromAddrs : A!HandleIncoming("request", a) /\ B!HandleIncoming("request", a)
        \/ (A!PollWait(now) /\ B!PollWait(now + D))
        \/ \E t \in Tids : A!PollServe(t, now) /\ B!PollServe(t, now + D)
        \/ \E t \in Tids : (A!Cancel(t) /\ B!Cancel(t)) \/ (A!CancelRetrans(t) /\ B!CancelRetrans(t))
        \/ \E t \in Tids, c \in CfgIds :
              /\ A!Configure(t, CfgTable[c][1], CfgTable[c][2], CfgTable[c][3])
              /\ B!Configure(t, CfgTable[c][1], CfgTable[c][2], CfgTable[c][3])
        \/ \E k \in RemoteKeys : A!SetRemote(k) /\ B!SetRemote(k)
  \/ \E d \in TickSet : /\ now + d <= MaxTime /\ now' = now + d
                        /\ actA' = [name |-> "tick"] /\ actB' = [name |-> "tick"]
                        /\ UNCHANGED <<outA, valA, rcA, lcA, outB, valB, rcB, lcB>>

Spec == Init /\ [][Next]_vars

ShiftOut(o) == [t \in DOMAIN o |-> [o[t] EXCEPT !.lastSend = @ + D]]
ShiftReply(r) == IF "until" \in DOMAIN r THEN [r EXCEPT !.until = @ + D] ELSE r
ShiftAct(a) ==
  LET a1 == IF "now" \in DOMAIN a THEN [a EXCEPT !.now = @ + D] ELSE a
  IN IF "reply" \in DOMAIN a1 THEN [a1 EXCEPT !.reply = ShiftReply(@)] ELSE a1

\* same history shifted by D => same state and replies shifted by D
ShiftInv == ShiftOut(outA) = outB /\ valA = valB /\ rcA = rcB /\ lcA = lcB
\* (an action property, because act is not part of the VIEW)
ReplyShift == [][ShiftAct(actA') = actB']_vars
\* ... and the same choices are open to poll in both copies at corresponding instants
SameChoices == /\ A!Due(now) = B!Due(now + D)
               /\ \A t \in A!Due(now) : A!Svc(outA[t], now).k = B!Svc(outB[t], now + D).k
\* an instant passed for one transaction never shows up in another one's record
NoLeak ==
  [][\A t \in DOMAIN outA : (t \in DOMAIN outA' /\ outA'[t].lastSend # outA[t].lastSend)
        => (actA'.name = "poll" /\ actA'.reply.k = "transmit" /\ actA'.reply.tid = t)]_vars
=============================================================================
