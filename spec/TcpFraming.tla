----------------------------- MODULE TcpFraming -----------------------------
(***************************************************************************)
(* TcpBuffer of stun-proto (RFC 4571 framing): bytes are pushed in         *)
(* arbitrary chunks; pull returns the next complete frame (16-bit length   *)
(* prefix, big endian) or nothing, and consumes only on success.           *)
(***************************************************************************)
EXTENDS Integers, Sequences

CONSTANT Radix          \* 256 for the code; the length prefix is two digits in this radix

VARIABLES buf,          \* bytes pushed and not yet pulled
          act           \* last call and its reply (observation)

FrameLen(b) == b[1] * Radix + b[2]
Complete(b) == Len(b) >= 2 /\ Len(b) >= 2 + FrameLen(b)

Init == buf = <<>> /\ act = [name |-> "init"]

Push(chunk) ==
  /\ buf' = buf \o chunk
  /\ act' = [name |-> "push", bytes |-> chunk]

Pull ==
  IF Complete(buf)
    THEN LET n == FrameLen(buf) IN
         /\ buf' = SubSeq(buf, 3 + n, Len(buf))
         /\ act' = [name |-> "pull", reply |-> [k |-> "frame", bytes |-> SubSeq(buf, 3, 2 + n)]]
    ELSE /\ UNCHANGED buf
         /\ act' = [name |-> "pull", reply |-> [k |-> "none"]]
=============================================================================
