SPECIFICATION TSpec
CONSTANTS
  Tids = {0, 1, 2, 3, 4, 5, 6, 7, 8, 9, 10, 11, 12}
  Addrs = {"a1", "a2", "a3", "a4", "a5", "a6"}
  Keys = {"k1", "k2", "k3"}
  Payloads = {"p1", "p2", "p3"}
  None = "none"
  Corrupt = "corrupt"
  Udp = FALSE
  DefSched <- Sched_none
  DefLast = 39500000
  IdleWait = 1
  MaxTime = 0
  TickSet = {}
  ToAddrs = {}
  FromAddrs = {}
  SealedOpts = {}
  IntegOpts = {}
  CfgIds = {}
  RemoteKeys = {}
  LocalKeys = {}
  OtherCls = {}
  InCls = {}
  CancelOps = {}
  Horizon = 0
PROPERTIES TStepProps
POSTCONDITION Accepted
CHECK_DEADLOCK FALSE
