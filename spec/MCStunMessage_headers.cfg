INIT Init
NEXT Next

CONSTANTS
  MaxAttrs = 2
  Letters = {2, 3, 7, 9, 12, 13}
  HeaderIds = {1, 2, 3, 4, 5, 6, 7, 8, 9, 10, 11, 12, 13, 14}
  Defects = {"valcut", "hdrcut1", "hdrcut3"}
INVARIANTS AcceptIffWellFormed ErrorIsACause RejectedHasCause CausesAgree TruncationDescribes ExposureInv EmitCase
CHECK_DEADLOCK FALSE
