INIT MCInit
NEXT MCNext
CONSTANTS
  Tids = {1, 2}
  Addrs = {"a1", "a2", "a3"}
  Keys = {"k1", "k2"}
  Payloads = {"p1"}
  None = "none"
  Corrupt = "corrupt"
  Udp = FALSE
  DefSched <- Sched_none
  DefLast = 2
  IdleWait = 3600
  MaxTime = 3
  TickSet = {1}
  ToAddrs = {"a1"}
  FromAddrs = {"a2"}
  SealedOpts = {TRUE, FALSE}
  IntegOpts = {"none", "k1"}
  CfgIds = {}
  RemoteKeys = {"k1"}
  LocalKeys = {}
  OtherCls = {"success"}
  InCls = {"indication"}
  CancelOps = {"cancel", "cancel_rt"}
  Horizon = 6
VIEW core
CHECK_DEADLOCK FALSE
ACTION_CONSTRAINT Emit
