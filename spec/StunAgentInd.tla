---------------------------- MODULE StunAgentInd ----------------------------
(***************************************************************************)
(* The timing and life-cycle core of StunAgent.tla in a form Apalache can  *)
(* type: total functions over a fixed set of transaction ids instead of a  *)
(* function with a growing domain, no observation variable.  Next to the   *)
(* agent's own variables it carries the ghost of MCAgent.tla (what the     *)
(* observable events so far say about each transaction).                   *)
(*                                                                         *)
(* IndInv relates the two (Rel) and states C06's ScheduleInv / CancelInv / *)
(* PromiseInv and C05's LifeInv at SYMBOLIC instants `probe`, `probe2`.    *)
(* Apalache shows that it holds initially and is preserved by every action *)
(* from ANY state satisfying it - for all integer instants (no horizon, no *)
(* monotonicity), every initial_rto, every last timeout, retransmits 0..8, *)
(* the code's real default schedule: what TLC establishes only for the     *)
(* states reachable within MaxTime <= 9 and three small configurations.    *)
(*                                                                         *)
(* That this module describes the same machine as StunAgent.tla is checked *)
(* by TLC (MCAgentInd.tla): on every transition of the bounded MCAgent     *)
(* models the corresponding action of this module holds between the        *)
(* images of the two states.                                               *)
(***************************************************************************)
EXTENDS Integers, Sequences

CONSTANTS
  \* @type: Set(Int);
  ITids,
  \* @type: Bool;
  IUdp,
  \* @type: Seq(Int);
  IDefSched,
  \* @type: Int;
  IDefLast

VARIABLES
  \* the agent (StunAgent.tla: out[t].sched, .last, .idx, .lastSend, .sc, .rc; open[t] <=> t \in DOMAIN out)
  \* @type: Int -> Bool;
  open,
  \* @type: Int -> Seq(Int);
  sched,
  \* @type: Int -> Int;
  last,
  \* @type: Int -> Int;
  idx,
  \* @type: Int -> Int;
  lastSend,
  \* @type: Int -> Bool;
  sc,
  \* @type: Int -> Bool;
  rc,
  \* the ghost (MCAgent.tla: g[t].st = "open", .ntx, .lastTx, .dflt, .rto, .n, .last, .crt, .cc)
  \* @type: Int -> Bool;
  gopen,
  \* @type: Int -> Int;
  ntx,
  \* @type: Int -> Int;
  lastTx,
  \* @type: Int -> Bool;
  dflt,
  \* @type: Int -> Int;
  grto,
  \* @type: Int -> Int;
  gn,
  \* @type: Int -> Int;
  glast,
  \* @type: Int -> Bool;
  crt,
  \* @type: Int -> Bool;
  cc,
  \* two arbitrary instants at which the timing invariants are stated (never changed: "for all instants")
  \* @type: Int;
  probe,
  \* @type: Int;
  probe2

agentVars == <<open, sched, last, idx, lastSend, sc, rc>>
ghostVars == <<gopen, ntx, lastTx, dflt, grto, gn, glast, crt, cc>>
ivars == <<open, sched, last, idx, lastSend, sc, rc, gopen, ntx, lastTx, dflt, grto, gn, glast, crt, cc, probe, probe2>>

MaxRetrans == 8

\* rto * 2^(i-1) for i in 1..n, n <= 8 (written out: Apalache wants linear arithmetic and constant ranges)
\* @type: (Int, Int) => Seq(Int);
UdpSchedI(rto, n) == SubSeq(<<rto, 2 * rto, 4 * rto, 8 * rto, 16 * rto, 32 * rto, 64 * rto, 128 * rto>>, 1, n)
\* their sum rto * (2^n - 1)
\* @type: (Int, Int) => Int;
SumI(rto, n) ==
  IF n = 0 THEN 0 ELSE IF n = 1 THEN rto ELSE IF n = 2 THEN 3 * rto ELSE IF n = 3 THEN 7 * rto
  ELSE IF n = 4 THEN 15 * rto ELSE IF n = 5 THEN 31 * rto ELSE IF n = 6 THEN 63 * rto
  ELSE IF n = 7 THEN 127 * rto ELSE 255 * rto

\* the code's two real configurations (milliseconds)
ConstInitUdp == ITids = {1, 2} /\ IUdp = TRUE /\ IDefSched = <<500, 1000, 2000, 4000, 8000, 16000>> /\ IDefLast = 8000
ConstInitUdp1 == ITids = {1} /\ IUdp = TRUE /\ IDefSched = <<500, 1000, 2000, 4000, 8000, 16000>> /\ IDefLast = 8000
ConstInitTcp == ITids = {1, 2} /\ IUdp = FALSE /\ IDefSched = <<>> /\ IDefLast = 39500

-----------------------------------------------------------------------------
(* StunRequestState::poll for request t at instant now (Svc of StunAgent.tla, kind and wake-up separately) *)
\* @type: (Int) => Int;
WakeOf(t) == IF idx[t] >= Len(sched[t]) THEN lastSend[t] + last[t] ELSE lastSend[t] + sched[t][idx[t] + 1]
\* @type: (Int, Int) => Str;
KindOf(t, now) ==
  IF rc[t] THEN "cancelled"
  ELSE IF WakeOf(t) > now THEN "wait"
  ELSE IF idx[t] >= Len(sched[t]) THEN "timeout"
  ELSE IF sc[t] THEN "cancelled" ELSE "send"

\* the closed (absent) transaction: every field at its default
Close(t) ==
  /\ open' = [open EXCEPT ![t] = FALSE] /\ sched' = [sched EXCEPT ![t] = <<>>] /\ last' = [last EXCEPT ![t] = 0]
  /\ idx' = [idx EXCEPT ![t] = 0] /\ lastSend' = [lastSend EXCEPT ![t] = 0]
  /\ sc' = [sc EXCEPT ![t] = FALSE] /\ rc' = [rc EXCEPT ![t] = FALSE]
GClose(t) ==
  /\ gopen' = [gopen EXCEPT ![t] = FALSE] /\ ntx' = [ntx EXCEPT ![t] = 0] /\ lastTx' = [lastTx EXCEPT ![t] = 0]
  /\ dflt' = [dflt EXCEPT ![t] = FALSE] /\ grto' = [grto EXCEPT ![t] = 0] /\ gn' = [gn EXCEPT ![t] = 0]
  /\ glast' = [glast EXCEPT ![t] = 0] /\ crt' = [crt EXCEPT ![t] = FALSE] /\ cc' = [cc EXCEPT ![t] = FALSE]

(* send() of a request: refused while the id is outstanding, else a fresh transaction, transmitted at once *)
ISend(t, now) ==
  IF open[t] THEN UNCHANGED ivars
  ELSE /\ open' = [open EXCEPT ![t] = TRUE] /\ sched' = [sched EXCEPT ![t] = IDefSched]
       /\ last' = [last EXCEPT ![t] = IDefLast] /\ idx' = [idx EXCEPT ![t] = 0]
       /\ lastSend' = [lastSend EXCEPT ![t] = now]
       /\ sc' = [sc EXCEPT ![t] = FALSE] /\ rc' = [rc EXCEPT ![t] = FALSE]
       \* the event "request t transmitted at now" opens the ghost
       /\ gopen' = [gopen EXCEPT ![t] = TRUE] /\ ntx' = [ntx EXCEPT ![t] = 1] /\ lastTx' = [lastTx EXCEPT ![t] = now]
       /\ dflt' = [dflt EXCEPT ![t] = TRUE] /\ grto' = [grto EXCEPT ![t] = 0] /\ gn' = [gn EXCEPT ![t] = 0]
       /\ glast' = [glast EXCEPT ![t] = 0] /\ crt' = [crt EXCEPT ![t] = FALSE] /\ cc' = [cc EXCEPT ![t] = FALSE]
       /\ UNCHANGED <<probe, probe2>>

(* handle_stun() delivering a response for t (whether it is authentic is StunAgent.tla's business) *)
IDeliver(t) == open[t] /\ Close(t) /\ GClose(t) /\ UNCHANGED <<probe, probe2>>
(* anything that changes neither the transactions nor what the events say about them: dropped responses, *)
(* incoming requests, indications, non-request sends, credentials, a poll that answers WaitUntil          *)
INoop == UNCHANGED ivars

(* poll(now) serving request t, which is due *)
IPollServe(t, now) ==
  /\ open[t] /\ KindOf(t, now) # "wait"
  /\ IF KindOf(t, now) = "send"
       THEN /\ idx' = [idx EXCEPT ![t] = @ + 1] /\ lastSend' = [lastSend EXCEPT ![t] = now]
            /\ ntx' = [ntx EXCEPT ![t] = @ + 1] /\ lastTx' = [lastTx EXCEPT ![t] = now]
            /\ UNCHANGED <<open, sched, last, sc, rc, gopen, dflt, grto, gn, glast, crt, cc>>
       ELSE Close(t) /\ GClose(t)
  /\ UNCHANGED <<probe, probe2>>
(* poll(now) when nothing is due *)
IPollWait(now) == (\A t \in ITids : open[t] => KindOf(t, now) = "wait") /\ UNCHANGED ivars

ICancel(t) ==
  IF open[t]
    THEN /\ sc' = [sc EXCEPT ![t] = TRUE] /\ rc' = [rc EXCEPT ![t] = TRUE]
         /\ crt' = [crt EXCEPT ![t] = TRUE] /\ cc' = [cc EXCEPT ![t] = TRUE]
         /\ UNCHANGED <<open, sched, last, idx, lastSend, gopen, ntx, lastTx, dflt, grto, gn, glast, probe, probe2>>
    ELSE UNCHANGED ivars
ICancelRt(t) ==
  IF open[t]
    THEN /\ sc' = [sc EXCEPT ![t] = TRUE] /\ crt' = [crt EXCEPT ![t] = TRUE]
         /\ UNCHANGED <<open, sched, last, idx, lastSend, rc, gopen, ntx, lastTx, dflt, grto, gn, glast, cc, probe, probe2>>
    ELSE UNCHANGED ivars
IConfigure(t, rto, n, lst) ==
  IF open[t]
    THEN /\ sched' = [sched EXCEPT ![t] = IF IUdp THEN UdpSchedI(rto, n) ELSE <<>>]
         /\ last' = [last EXCEPT ![t] = IF IUdp THEN lst ELSE lst + SumI(rto, n)]
         /\ dflt' = [dflt EXCEPT ![t] = FALSE] /\ grto' = [grto EXCEPT ![t] = rto]
         /\ gn' = [gn EXCEPT ![t] = n] /\ glast' = [glast EXCEPT ![t] = lst]
         /\ UNCHANGED <<open, idx, lastSend, sc, rc, gopen, ntx, lastTx, crt, cc, probe, probe2>>
    ELSE UNCHANGED ivars

INext ==
  \/ \E t \in ITids : \E now \in Int : ISend(t, now) \/ IPollServe(t, now)
  \/ \E now \in Int : IPollWait(now)
  \/ \E t \in ITids : IDeliver(t) \/ ICancel(t) \/ ICancelRt(t)
  \/ \E t \in ITids : \E rto \in Nat : \E n \in 0..MaxRetrans : \E lst \in Nat : IConfigure(t, rto, n, lst)
  \/ INoop

-----------------------------------------------------------------------------
\* what the events say the schedule is (GInterval / GRetrans / GDueAt of MCAgent.tla)
\* @type: (Int) => Int;
GIntervalI(t) ==
  IF dflt[t] THEN (IF ntx[t] <= Len(IDefSched) THEN IDefSched[ntx[t]] ELSE IDefLast)
  ELSE IF IUdp THEN (IF ntx[t] <= gn[t] THEN UdpSchedI(grto[t], gn[t])[ntx[t]] ELSE glast[t])
  ELSE glast[t] + SumI(grto[t], gn[t])
\* @type: (Int) => Int;
GRetransI(t) == IF dflt[t] THEN Len(IDefSched) ELSE IF IUdp THEN gn[t] ELSE 0
\* @type: (Int) => Int;
GDueAtI(t) == lastTx[t] + GIntervalI(t)

\* the agent's record of an open transaction is the one the events determine; a closed one is all defaults
Rel(t) ==
  /\ open[t] = gopen[t]
  /\ open[t] =>
       /\ idx[t] = ntx[t] - 1 /\ lastSend[t] = lastTx[t] /\ sc[t] = crt[t] /\ rc[t] = cc[t]
       /\ sched[t] = (IF dflt[t] THEN IDefSched ELSE IF IUdp THEN UdpSchedI(grto[t], gn[t]) ELSE <<>>)
       /\ last[t] = (IF dflt[t] THEN IDefLast ELSE IF IUdp THEN glast[t] ELSE glast[t] + SumI(grto[t], gn[t]))
  /\ ~open[t] =>
       /\ sched[t] = <<>> /\ last[t] = 0 /\ idx[t] = 0 /\ lastSend[t] = 0 /\ ~sc[t] /\ ~rc[t]
       /\ ntx[t] = 0 /\ lastTx[t] = 0 /\ ~dflt[t] /\ grto[t] = 0 /\ gn[t] = 0 /\ glast[t] = 0 /\ ~crt[t] /\ ~cc[t]
GhostType(t) ==
  /\ gopen[t] => (ntx[t] \in 1..(MaxRetrans + 1) /\ (cc[t] => crt[t]))
  /\ gn[t] \in 0..MaxRetrans /\ grto[t] >= 0 /\ glast[t] >= 0
  /\ (gopen[t] /\ dflt[t]) => ntx[t] <= Len(IDefSched) + 1

\* C06 ScheduleInv at the instant i: the agent waits exactly until the due instant the events determine, then
\* retransmits if retransmissions remain and were not cancelled, else times out
ScheduleAt(t, i) ==
  (gopen[t] /\ ~cc[t]) =>
     IF i < GDueAtI(t) THEN KindOf(t, i) = "wait" /\ WakeOf(t) = GDueAtI(t)
     ELSE IF ntx[t] - 1 >= GRetransI(t) THEN KindOf(t, i) = "timeout"
     ELSE IF crt[t] THEN KindOf(t, i) = "cancelled"
     ELSE KindOf(t, i) = "send"
\* C06 CancelInv: after cancel() the next poll reports Cancelled whatever the instant
CancelAt(t, i) == (gopen[t] /\ cc[t]) => KindOf(t, i) = "cancelled"
\* C06 PromiseInv: if nothing is due at i the earliest wake-up w lies after i, every instant j in [i, w) answers the
\* same w and nothing is due at j, and at w something is due
AllWait(i) == \A t \in ITids : open[t] => KindOf(t, i) = "wait"
Earliest(t) == open[t] /\ \A u \in ITids : open[u] => WakeOf(t) <= WakeOf(u)
PromiseAt(i, j) ==
  AllWait(i) => \A t \in ITids : Earliest(t) =>
     /\ WakeOf(t) > i
     /\ KindOf(t, WakeOf(t)) # "wait"
     /\ (i <= j /\ j < WakeOf(t)) => AllWait(j)

IndInv ==
  /\ \A t \in ITids : Rel(t) /\ GhostType(t) /\ ScheduleAt(t, probe) /\ CancelAt(t, probe)
  /\ PromiseAt(probe, probe2)

\* an ARBITRARY state satisfying the invariant: the ghost is anything well-typed, the agent is what Rel makes of it
IndInit ==
  /\ gopen \in [ITids -> BOOLEAN] /\ ntx \in [ITids -> 0..(MaxRetrans + 1)] /\ lastTx \in [ITids -> Int]
  /\ dflt \in [ITids -> BOOLEAN] /\ grto \in [ITids -> Nat] /\ gn \in [ITids -> 0..MaxRetrans] /\ glast \in [ITids -> Nat]
  /\ crt \in [ITids -> BOOLEAN] /\ cc \in [ITids -> BOOLEAN]
  /\ probe \in Int /\ probe2 \in Int
  /\ open = gopen
  /\ idx = [t \in ITids |-> IF gopen[t] THEN ntx[t] - 1 ELSE 0]
  /\ lastSend = [t \in ITids |-> IF gopen[t] THEN lastTx[t] ELSE 0]
  /\ sc = [t \in ITids |-> gopen[t] /\ crt[t]]
  /\ rc = [t \in ITids |-> gopen[t] /\ cc[t]]
  /\ sched = [t \in ITids |-> IF ~gopen[t] THEN <<>> ELSE IF dflt[t] THEN IDefSched ELSE IF IUdp THEN UdpSchedI(grto[t], gn[t]) ELSE <<>>]
  /\ last = [t \in ITids |-> IF ~gopen[t] THEN 0 ELSE IF dflt[t] THEN IDefLast ELSE IF IUdp THEN glast[t] ELSE glast[t] + SumI(grto[t], gn[t])]
  /\ IndInv

\* (must be VIOLATED from IndInit: the arbitrary initial states include a reconfigured, retransmitted, cancel_retransmissions-ed one)
IndWitness == ~(\E t \in ITids : gopen[t] /\ ntx[t] = 3 /\ ~dflt[t] /\ crt[t] /\ ~cc[t] /\ gn[t] = 5 /\ probe > lastTx[t])

\* the real initial state: no transaction
Init0 ==
  /\ open = [t \in ITids |-> FALSE] /\ sched = [t \in ITids |-> <<>>] /\ last = [t \in ITids |-> 0]
  /\ idx = [t \in ITids |-> 0] /\ lastSend = [t \in ITids |-> 0] /\ sc = [t \in ITids |-> FALSE] /\ rc = [t \in ITids |-> FALSE]
  /\ gopen = [t \in ITids |-> FALSE] /\ ntx = [t \in ITids |-> 0] /\ lastTx = [t \in ITids |-> 0]
  /\ dflt = [t \in ITids |-> FALSE] /\ grto = [t \in ITids |-> 0] /\ gn = [t \in ITids |-> 0] /\ glast = [t \in ITids |-> 0]
  /\ crt = [t \in ITids |-> FALSE] /\ cc = [t \in ITids |-> FALSE]
  /\ probe \in Int /\ probe2 \in Int
=============================================================================
