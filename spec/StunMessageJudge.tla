-------------------------- MODULE StunMessageJudge --------------------------
(***************************************************************************)
(* The specification as reference decoder: for every case in IOEnv.CASES   *)
(* (one JSON record per line: the bytes handed to the implementation and   *)
(* what else was asked about them) print the observations the              *)
(* specification expects.  The comparison with what the implementation     *)
(* answered is plain equality, done outside.  Also checks, on every        *)
(* buffer, that the two formulations of acceptance agree.                  *)
(***************************************************************************)
EXTENDS StunMessage, TLC, Json, IOUtils

Cases == ndJsonDeserialize(IOEnv.CASES)


Has(r, f) == f \in DOMAIN r

ParseSummary(b) == Parse(b)

Accepted(c, b) ==
  LET as == Attrs(b)  e == Exposed(as) IN
  [class |-> ClassOf(U16(b, 1)), method |-> MethodOf(U16(b, 1)), tid |-> SubSeq(b, 9, 20),
   nattrs |-> Len(as),
   exposed |-> [i \in 1..Len(e) |-> [type |-> e[i].type, value |-> Value(b, e[i]), off |-> e[i].off]],
   plan |-> IntegrityPlan(b),
   \* responses derived from a request (only requests: the constructors document a panic otherwise)
   resp |-> IF ClassOf(U16(b, 1)) = "request"
              THEN [success |-> ResponseHeader(b, "success"), bad |-> ErrorResponse(b, 400, <<>>),
                    unk |-> ErrorResponse(b, 420, <<6, 32802, 65535>>), unk0 |-> ErrorResponse(b, 420, <<>>)]
              ELSE [none |-> TRUE],
   police |-> IF Has(c, "police") THEN [k \in 1..Len(c.police) |-> Police(b, SeqToSet(c.police[k][1]), SeqToSet(c.police[k][2]))] ELSE <<>>]

Cuts(b) == [n \in 1..Len(b) |-> LET p == SubSeq(b, 1, n - 1) IN [parse |-> Parse(p), hdr |-> HeaderVerdict(p).ok]]
CutList(b, l) == [k \in 1..Len(l) |-> LET n == IF l[k] > Len(b) THEN Len(b) ELSE l[k]  p == SubSeq(b, 1, n)
                                    IN [n |-> n, parse |-> Parse(p), hdr |-> HeaderVerdict(p).ok]]

Expect(i) ==
  LET c == Cases[i]  b == c.bytes  p == Parse(b) IN
  IF Has(c, "mode") /\ c.mode = "verdict" THEN [i |-> i, parse |-> p, consistent |-> (p.ok = WellFormed(b))]
  ELSE
  [i |-> i, parse |-> p, consistent |-> (p.ok = WellFormed(b)),
   causes |-> SetToSeq(Causes(b)), hdr |-> HeaderVerdict(b), typ |-> TypeVerdict(b),
   acc |-> IF p.ok THEN Accepted(c, b) ELSE [none |-> TRUE],
   \* what C10 would allow to be exposed if an implementation accepted this buffer although it is not well-formed
   \* (defined whenever the body at least tiles): lets a wrong acceptance also be judged against the exposure rule
   hyp |-> IF ~p.ok /\ HeaderOk(b) /\ Walk(b, 20, <<>>).tiled
             THEN [exposed |-> LET e == Exposed(Attrs(b)) IN [k \in 1..Len(e) |-> [type |-> e[k].type, value |-> Value(b, e[k])]]]
             ELSE [none |-> TRUE],
   keyplans |-> IF Has(c, "creds") THEN [k \in 1..Len(c.creds) |-> KeyPlan(c.creds[k])] ELSE <<>>,
   cuts |-> IF Has(c, "cuts") /\ c.cuts /\ p.ok THEN Cuts(b) ELSE <<>>,
   cutlist |-> IF Has(c, "cutlist") /\ p.ok THEN CutList(b, c.cutlist) ELSE <<>>]

\* (evaluated in the next-state relation, i.e. by a worker thread whose stack size -Xss governs: buffers with
\*  thousands of attributes need a deep recursion)
VARIABLE x
Init == x = 0
Next == /\ x = 0 /\ x' = 1
        /\ \A i \in 1..Len(Cases) : PrintT("EXPECT " \o ToJson(Expect(i)))
        /\ PrintT("JUDGED " \o ToString(Len(Cases)))
=============================================================================
