----------------------------- MODULE StunAgent -----------------------------
(***************************************************************************)
(* The STUN agent of stun-proto (stun-proto/src/agent.rs) as a state        *)
(* machine.  One action per public call: this is a sequential sans-IO       *)
(* library, so the linearisation point of a call is its return.            *)
(*                                                                         *)
(* The module has NO clock.  Time enters only as the `now` parameter of    *)
(* SendRequest and Poll, exactly as in the code.  Model-checking wrappers  *)
(* (MCAgent) own a clock; trace specifications take `now` from the log.    *)
(*                                                                         *)
(* Every action is total: for every argument it is enabled and defines a   *)
(* reply, so any call sequence can be replayed from any state.             *)
(***************************************************************************)
EXTENDS Integers, Sequences, FiniteSets

CONSTANTS
  Tids,        \* transaction ids
  Addrs,       \* socket addresses (peers, destinations)
  Keys,        \* credentials (HMAC keys); key identity abstracts "validates under"
  Payloads,    \* tokens standing for the serialised bytes of a message
  None,        \* "no credentials" / "no integrity attribute"
  Corrupt,     \* an integrity attribute that validates under no key
  Udp,         \* BOOLEAN: TRUE = UDP agent, FALSE = TCP agent
  DefSched,    \* default retransmission intervals installed by send (UDP: <<500,...,16000>>, TCP: <<>>)
  DefLast,     \* default last timeout (UDP 8000, TCP 39500)
  IdleWait     \* what poll() adds to `now` when nothing is outstanding (3600 s in the code)

VARIABLES
  out,         \* outstanding requests: [SUBSET Tids -> request record]
  validated,   \* SUBSET Addrs
  rcred,       \* remote credentials: Keys \cup {None}
  lcred,       \* local credentials: Keys \cup {None} (only stored and returned)
  act          \* the last call and its reply (observation; never read by an action)

state == <<out, validated, rcred, lcred>>
vars  == <<out, validated, rcred, lcred, act>>

Outstanding == DOMAIN out

RECURSIVE Pow2(_)
Pow2(n) == IF n = 0 THEN 1 ELSE 2 * Pow2(n - 1)
RECURSIVE SumSeq(_)
SumSeq(s) == IF s = <<>> THEN 0 ELSE Head(s) + SumSeq(Tail(s))
Min(S) == CHOOSE x \in S : \A y \in S : x <= y

\* the UDP schedule of configure_timeout(rto, n, _): rto * 2^i for i in 0..n-1
UdpSched(rto, n) == [i \in 1..n |-> rto * Pow2(i - 1)]

Drop(f, t) == [x \in DOMAIN f \ {t} |-> f[x]]
Put(f, t, v) == [x \in DOMAIN f \cup {t} |-> IF x = t THEN v ELSE f[x]]

Init ==
  /\ out = <<>>            \* the function with empty domain
  /\ validated = {}
  /\ rcred = None
  /\ lcred = None
  /\ act = [name |-> "init"]

-----------------------------------------------------------------------------
(* send(): a request opens a transaction and is transmitted at once.       *)
SendRequest(t, to, sealed, pay, now) ==
  /\ IF t \in Outstanding
       THEN /\ out' = out
            /\ act' = [name |-> "send", cls |-> "request", tid |-> t, to |-> to, sealed |-> sealed,
                       pay |-> pay, now |-> now, reply |-> [k |-> "err", e |-> "AlreadyInProgress"]]
       ELSE /\ out' = Put(out, t, [sealed |-> sealed, to |-> to, pay |-> pay,
                                    sched |-> DefSched, last |-> DefLast,
                                    idx |-> 0, lastSend |-> now, sc |-> FALSE, rc |-> FALSE])
            /\ act' = [name |-> "send", cls |-> "request", tid |-> t, to |-> to, sealed |-> sealed,
                       pay |-> pay, now |-> now,
                       reply |-> [k |-> "transmit", pay |-> pay, to |-> to]]
  /\ UNCHANGED <<validated, rcred, lcred>>

(* send() of an indication or a response: transmitted once, nothing kept.  *)
SendOther(cls, to, pay) ==
  /\ cls \in {"indication", "success", "error"}
  /\ act' = [name |-> "send", cls |-> cls, to |-> to, pay |-> pay,
             reply |-> [k |-> "transmit", pay |-> pay, to |-> to]]
  /\ UNCHANGED state

(* send_data(): opaque application bytes to a peer; the agent only wraps   *)
(* them in a transmission and keeps nothing.                               *)
SendData(to, pay) ==
  /\ act' = [name |-> "send", cls |-> "data", to |-> to, pay |-> pay,
             reply |-> [k |-> "transmit", pay |-> pay, to |-> to]]
  /\ UNCHANGED state

(* handle_stun() with a success/error response.  integ is None (no         *)
(* integrity attribute), a key (an attribute that validates under exactly  *)
(* that key) or Corrupt.                                                   *)
Authentic(t, integ) == ~out[t].sealed \/ (rcred # None /\ integ = rcred)

HandleResponse(t, from, integ) ==
  /\ IF t \in Outstanding /\ Authentic(t, integ)
       THEN /\ out' = Drop(out, t)
            /\ validated' = validated \cup {from}
            /\ act' = [name |-> "recv", cls |-> "response", tid |-> t, from |-> from, integ |-> integ,
                       reply |-> [k |-> "response"]]
       ELSE /\ UNCHANGED <<out, validated>>
            /\ act' = [name |-> "recv", cls |-> "response", tid |-> t, from |-> from, integ |-> integ,
                       reply |-> [k |-> "drop"]]
  /\ UNCHANGED <<rcred, lcred>>

(* handle_stun() with a request or an indication: always handed up, and    *)
(* the sender is validated.  The transaction id plays no role.             *)
HandleIncoming(cls, from) ==
  /\ cls \in {"request", "indication"}
  /\ validated' = validated \cup {from}
  /\ act' = [name |-> "recv", cls |-> cls, from |-> from, reply |-> [k |-> "incoming"]]
  /\ UNCHANGED <<out, rcred, lcred>>

-----------------------------------------------------------------------------
(* StunRequestState::poll for one request at instant `now`, transcribed.    *)
Svc(r, now) ==
  IF r.rc THEN [k |-> "cancelled"]
  ELSE IF r.idx >= Len(r.sched)
    THEN IF r.lastSend + r.last > now THEN [k |-> "wait", t |-> r.lastSend + r.last]
                                       ELSE [k |-> "timeout"]
    ELSE IF r.lastSend + r.sched[r.idx + 1] > now
           THEN [k |-> "wait", t |-> r.lastSend + r.sched[r.idx + 1]]
           ELSE IF r.sc THEN [k |-> "cancelled"] ELSE [k |-> "send"]

Due(now) == {t \in Outstanding : Svc(out[t], now).k # "wait"}
\* earliest wake-up among the waiting requests; only used when nothing is due
MinWake(now) == Min({Svc(out[t], now).t : t \in Outstanding})

(* Nothing is due.  With outstanding requests the reply is the earliest    *)
(* wake-up (C06); without, it is now + IdleWait (as the code does).        *)
PollWait(now) ==
  /\ Due(now) = {}
  /\ act' = [name |-> "poll", now |-> now,
             reply |-> [k |-> "wait", idle |-> (Outstanding = {}),
                        until |-> IF Outstanding = {} THEN now + IdleWait ELSE MinWake(now)]]
  /\ UNCHANGED state

(* The code walks a HashMap and serves the first request that does not     *)
(* answer "wait": any due request may be the one served.  Requests that    *)
(* answered "wait" are not touched.                                        *)
PollServe(t, now) ==
  /\ t \in Due(now)
  /\ LET s == Svc(out[t], now) IN
       IF s.k = "send"
         THEN /\ out' = [out EXCEPT ![t].idx = @ + 1, ![t].lastSend = now]
              /\ act' = [name |-> "poll", now |-> now,
                         reply |-> [k |-> "transmit", tid |-> t, pay |-> out[t].pay, to |-> out[t].to]]
         ELSE /\ out' = Drop(out, t)
              /\ act' = [name |-> "poll", now |-> now, reply |-> [k |-> s.k, tid |-> t]]
  /\ UNCHANGED <<validated, rcred, lcred>>

Poll(now) == PollWait(now) \/ \E t \in Tids : PollServe(t, now)

-----------------------------------------------------------------------------
(* Request handles.  mut_request_transaction(t) is None for an id that is  *)
(* not outstanding, in which case nothing can be called: reply "none".     *)
Cancel(t) ==
  /\ IF t \in Outstanding
       THEN /\ out' = [out EXCEPT ![t].sc = TRUE, ![t].rc = TRUE]
            /\ act' = [name |-> "cancel", tid |-> t, reply |-> [k |-> "ok"]]
       ELSE /\ out' = out
            /\ act' = [name |-> "cancel", tid |-> t, reply |-> [k |-> "none"]]
  /\ UNCHANGED <<validated, rcred, lcred>>

CancelRetrans(t) ==
  /\ IF t \in Outstanding
       THEN /\ out' = [out EXCEPT ![t].sc = TRUE]
            /\ act' = [name |-> "cancel_rt", tid |-> t, reply |-> [k |-> "ok"]]
       ELSE /\ out' = out
            /\ act' = [name |-> "cancel_rt", tid |-> t, reply |-> [k |-> "none"]]
  /\ UNCHANGED <<validated, rcred, lcred>>

(* configure_timeout(initial_rto, retransmits, last_retransmit_timeout):   *)
(* replaces the schedule, keeps the position in it and the last send time. *)
Configure(t, rto, n, last) ==
  /\ IF t \in Outstanding
       THEN /\ out' = IF Udp
                        THEN [out EXCEPT ![t].sched = UdpSched(rto, n), ![t].last = last]
                        ELSE [out EXCEPT ![t].sched = <<>>, ![t].last = last + SumSeq(UdpSched(rto, n))]
            /\ act' = [name |-> "configure", tid |-> t, rto |-> rto, n |-> n, last |-> last,
                       reply |-> [k |-> "ok"]]
       ELSE /\ out' = out
            /\ act' = [name |-> "configure", tid |-> t, rto |-> rto, n |-> n, last |-> last,
                       reply |-> [k |-> "none"]]
  /\ UNCHANGED <<validated, rcred, lcred>>

SetRemote(k) ==
  /\ rcred' = k
  /\ act' = [name |-> "set_remote", key |-> k]
  /\ UNCHANGED <<out, validated, lcred>>

SetLocal(k) ==
  /\ lcred' = k
  /\ act' = [name |-> "set_local", key |-> k]
  /\ UNCHANGED <<out, validated, rcred>>

-----------------------------------------------------------------------------
(* What the public API shows of the state (request_transaction,            *)
(* peer_address, is_validated_peer, remote/local_credentials).             *)
ObsOut  == {<<t, out[t].to>> : t \in Outstanding}
ObsView == [out |-> ObsOut, val |-> validated, rcred |-> rcred, lcred |-> lcred]

TypeOK ==
  /\ Outstanding \subseteq Tids
  /\ \A t \in Outstanding :
       /\ out[t].sealed \in BOOLEAN /\ out[t].to \in Addrs /\ out[t].pay \in Payloads
       /\ out[t].idx \in Nat /\ out[t].sc \in BOOLEAN /\ out[t].rc \in BOOLEAN
       /\ out[t].rc => out[t].sc
  /\ validated \subseteq Addrs
  /\ rcred \in Keys \cup {None}
  /\ lcred \in Keys \cup {None}
=============================================================================
