INIT Init
NEXT Next
CONSTANTS
  Tids = {1}
  Keys = {"k1", "k2"}
  None = "none"
  Corrupt = "corrupt"
  Udp = TRUE
  DefSched <- Sched_12
  DefLast = 1
  IdleWait = 3600
  ServerKey = "k1"
  ClientKeys = {"k1", "k2"}
  SealedOpts = {TRUE, FALSE}
  MaxTime = 3
  TickSet = {1}
  MaxDup = 1
  MaxLoss = 1
  MaxFlight = 2


VIEW core
CHECK_DEADLOCK FALSE
ACTION_CONSTRAINT Emit
