SPECIFICATION Spec
CONSTANTS
  Tids = {1, 2}
  Addrs = {"a1", "a2"}
  Keys = {"k1", "k2"}
  Payloads = {"p1"}
  None = "none"
  Corrupt = "corrupt"
  Udp = TRUE
  DefSched <- Sched_1
  DefLast = 1
  IdleWait = 3600
  D = 7
  MaxTime = 6
  TickSet = {1, 2}
  ToAddrs = {"a1"}
  FromAddrs = {"a2"}
  SealedOpts = {FALSE}
  IntegOpts = {"none"}
  CfgIds = {2, 4, 6}
  RemoteKeys = {"k1"}
INVARIANTS ShiftInv SameChoices
PROPERTIES NoLeak ReplyShift
VIEW core
CHECK_DEADLOCK FALSE
