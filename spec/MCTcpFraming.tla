---------------------------- MODULE MCTcpFraming ----------------------------
(***************************************************************************)
(* All frame sequences up to a stream length, all chunkings, all           *)
(* interleavings of push and pull; ghosts record what was sent and pulled. *)
(***************************************************************************)
EXTENDS TcpFraming, FiniteSets, TLC, Json

CONSTANTS Lens,        \* frame payload lengths
          Bytes,       \* payload byte alphabet
          MaxStream,   \* bound on the encoded length of the frame sequence
          TailIds      \* indices into Tails: bytes of an incomplete frame after the last one

Tails == << <<>>, <<0>>, <<1>>, <<0, 2, 1>>, <<1, 0, 2>> >>

VARIABLES frames,      \* the frames that were sent, in order
          stream,      \* encoded bytes not yet pushed
          pulled       \* frames pulled so far

mcvars == <<buf, act, frames, stream, pulled>>
core   == <<buf, frames, stream, pulled>>

Frames == UNION {[1..n -> Bytes] : n \in Lens}
Encode(f) == <<Len(f) \div Radix, Len(f) % Radix>> \o f
RECURSIVE Flat(_)
Flat(fs) == IF fs = <<>> THEN <<>> ELSE Encode(Head(fs)) \o Flat(Tail(fs))
RECURSIVE SeqsWithin(_)
SeqsWithin(budget) ==
  {<<>>} \cup UNION {{<<f>> \o s : s \in SeqsWithin(budget - Len(f) - 2)} : f \in {x \in Frames : Len(x) + 2 <= budget}}

MCInit == /\ Init
          /\ frames \in SeqsWithin(MaxStream)
          /\ \E t \in TailIds : stream = Flat(frames) \o Tails[t]
          /\ pulled = <<>>

MCPush == \E n \in 1..Len(stream) :
            /\ Push(SubSeq(stream, 1, n))
            /\ stream' = SubSeq(stream, n + 1, Len(stream))
            /\ UNCHANGED <<frames, pulled>>
MCPull == /\ Pull
          /\ pulled' = IF act'.reply.k = "frame" THEN Append(pulled, act'.reply.bytes) ELSE pulled
          /\ UNCHANGED <<frames, stream>>
MCNext == MCPush \/ MCPull
MCSpec == MCInit /\ [][MCNext]_mcvars

IsPrefixOf(a, b) == Len(a) <= Len(b) /\ SubSeq(b, 1, Len(a)) = a

\* the pulled frames are exactly the first frames that were sent: none lost, duplicated, merged, reordered, altered
PrefixInv == IsPrefixOf(pulled, frames)
\* no byte is lost or invented: what was sent = what was pulled ++ what is buffered ++ what is still to be pushed
Conservation == \E t \in TailIds : Flat(frames) \o Tails[t] = Flat(pulled) \o buf \o stream
\* when everything has been pushed and pull says "nothing", every complete frame has been delivered
Drained == (stream = <<>> /\ ~Complete(buf)) => pulled = frames
\* pull answers "nothing" exactly when no complete frame is buffered, and then keeps the buffer
PullStep == [][act'.name = "pull" =>
                 /\ (act'.reply.k = "none") <=> ~Complete(buf)
                 /\ (act'.reply.k = "none") => buf' = buf
                 /\ (act'.reply.k = "frame") => (Len(pulled) < Len(frames) /\ act'.reply.bytes = frames[Len(pulled) + 1])]_mcvars

Emit == PrintT("EDGE " \o ToJson([src |-> [buf |-> buf, stream |-> stream, npulled |-> Len(pulled), frames |-> frames],
                                  act |-> act',
                                  dst |-> [buf |-> buf', stream |-> stream', npulled |-> Len(pulled'), frames |-> frames']]))
=============================================================================
