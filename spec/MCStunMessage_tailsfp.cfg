INIT Init
NEXT Next

CONSTANTS
  MaxAttrs = 4
  Letters = {7, 9, 12, 21, 22}
  HeaderIds = {1}
  Defects = {}
INVARIANTS AcceptIffWellFormed ErrorIsACause RejectedHasCause CausesAgree TruncationDescribes ExposureInv EmitCase
CHECK_DEADLOCK FALSE
