INIT MCInit
NEXT MCNext
CONSTANTS
  Tids = {1, 2}
  Addrs = {"a1", "a2", "a3"}
  Keys = {"k1", "k2"}
  Payloads = {"p1"}
  None = "none"
  Corrupt = "corrupt"
  Udp = FALSE
  DefSched <- Sched_none
  DefLast = 3
  IdleWait = 3600
  MaxTime = 5
  TickSet = {1, 2}
  ToAddrs = {"a1"}
  FromAddrs = {"a1"}
  SealedOpts = {FALSE}
  IntegOpts = {"none"}
  CfgIds = {6}
  RemoteKeys = {}
  LocalKeys = {}
  OtherCls = {}
  InCls = {}
  CancelOps = {"cancel_rt"}
  Horizon = 9
VIEW core
CHECK_DEADLOCK FALSE
ACTION_CONSTRAINT Emit
