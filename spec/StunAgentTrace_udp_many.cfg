SPECIFICATION TSpec
CONSTANTS
  Tids = {0, 1, 2, 3, 4, 5, 6, 7, 8, 9, 10, 11, 12, 13, 14, 15, 16, 17, 18, 19, 20, 21, 22, 23, 24, 25, 26, 27, 28, 29, 30, 31, 32, 33, 34, 35, 36, 37, 38, 39, 40, 41, 42, 43, 44, 45, 46, 47, 48, 49, 50, 51, 52, 53, 54, 55, 56, 57, 58, 59, 60, 61, 62, 63, 64, 65, 66, 67, 68, 69, 70, 71, 72, 73, 74, 75, 76, 77, 78, 79, 80, 81, 82, 83, 84, 85, 86, 87, 88, 89, 90, 91, 92, 93, 94, 95, 96, 97, 98, 99, 100, 101, 102, 103, 104, 105, 106, 107, 108, 109, 110, 111, 112, 113, 114, 115, 116, 117, 118, 119, 120, 121, 122, 123, 124, 125, 126, 127}
  Addrs = {"a1", "a2", "a3", "a4", "a5", "a6"}
  Keys = {"k1", "k2", "k3"}
  Payloads = {"p1", "p2", "p3"}
  None = "none"
  Corrupt = "corrupt"
  Udp = TRUE
  DefSched <- RealUdpSched
  DefLast = 8000
  IdleWait = 3600000
  MaxTime = 0
  TickSet = {}
  ToAddrs = {}
  FromAddrs = {}
  SealedOpts = {}
  IntegOpts = {}
  CfgIds = {}
  RemoteKeys = {}
  LocalKeys = {}
  OtherCls = {}
  InCls = {}
  CancelOps = {}
  Horizon = 0
PROPERTIES TStepProps
POSTCONDITION Accepted
CHECK_DEADLOCK FALSE
