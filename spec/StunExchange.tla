----------------------------- MODULE StunExchange -----------------------------
(***************************************************************************)
(* A client StunAgent, a stateless STUN server and an unreliable network   *)
(* (loss, duplication, reordering, delay) between them.  The client is the *)
(* StunAgent specification itself (INSTANCE); the server answers every     *)
(* well-formed request with a success response that echoes the             *)
(* transaction id and is sealed with the server's key (or not sealed).     *)
(* This is the system-level behaviour the retransmission machinery exists  *)
(* for; it is not one of the listed properties but it composes C05-C07:    *)
(*   - a transaction is answered at most once however often the network    *)
(*     duplicates requests or responses;                                   *)
(*   - responses that arrive after completion, or for other ids, are       *)
(*     dropped and change nothing;                                         *)
(*   - the client never transmits more than 1 + retransmits copies;        *)
(*   - (liveness, fair network) if the network loses at most MaxLoss       *)
(*     datagrams, a request with more transmissions than that is           *)
(*     answered, not timed out.                                            *)
(***************************************************************************)
EXTENDS Integers, Sequences, FiniteSets, TLC, Json

CONSTANTS Tids, Keys, None, Corrupt, Udp, DefSched, DefLast, IdleWait,
          ServerKey,      \* what the server seals responses with (None: unsealed)
          ClientKeys,     \* remote credentials the client may configure (subset of Keys)
          SealedOpts,     \* may the client's requests carry integrity?
          MaxTime, TickSet,
          MaxDup,         \* how many times the network may duplicate
          MaxLoss,        \* how many datagrams the network may lose
          MaxFlight       \* capacity of the network per transaction and direction (a datagram beyond it is dropped)

ServerAddr == "srv"
Addrs == {ServerAddr}
Payloads == {"req"}

VARIABLES out, validated, rcred, lcred, act,     \* the client agent
          now,
          c2s,            \* requests in flight client -> server: [Tids -> Nat] (copies of one request are indistinguishable)
          s2c,            \* responses in flight server -> client: [Tids -> Nat]
          nid,            \* (unused; kept constant)
          ndup, nloss,    \* what the network has done so far
          stat,           \* ghost per tid: [tx, delivered, done] of the current incarnation
          ever            \* ghost: has any response ever been handed up?

C == INSTANCE StunAgent
vars == <<out, validated, rcred, lcred, act, now, c2s, s2c, nid, ndup, nloss, stat, ever>>
core == <<out, validated, rcred, lcred, now, c2s, s2c, nid, ndup, nloss, stat, ever>>

Init == /\ C!Init /\ now = 0 /\ c2s = [t \in Tids |-> 0] /\ s2c = [t \in Tids |-> 0] /\ nid = 0 /\ ndup = 0 /\ nloss = 0
        /\ stat = [t \in Tids |-> [tx |-> 0, delivered |-> 0, done |-> TRUE]] /\ ever = FALSE

Sched_1 == <<1>>
Sched_12 == <<1, 2>>

\* the client's own calls; a Transmit reply puts one datagram on the wire
ClientSend(t, sealed) ==
  /\ C!SendRequest(t, ServerAddr, sealed, "req", now)
  /\ IF act'.reply.k = "transmit"
       THEN /\ c2s' = [c2s EXCEPT ![t] = IF @ < MaxFlight THEN @ + 1 ELSE @] /\ nid' = nid
            /\ stat' = [stat EXCEPT ![t] = [tx |-> 1, delivered |-> 0, done |-> FALSE]]
       ELSE UNCHANGED <<c2s, nid, stat>>
  /\ UNCHANGED <<now, s2c, ndup, nloss, ever>>
ClientPoll ==
  /\ C!Poll(now)
  /\ IF act'.reply.k = "transmit"
       THEN /\ c2s' = [c2s EXCEPT ![act'.reply.tid] = IF @ < MaxFlight THEN @ + 1 ELSE @] /\ nid' = nid
            /\ stat' = [stat EXCEPT ![act'.reply.tid].tx = @ + 1]
       ELSE IF act'.reply.k \in {"timeout", "cancelled"}
         THEN stat' = [stat EXCEPT ![act'.reply.tid].done = TRUE] /\ UNCHANGED <<c2s, nid>>
         ELSE UNCHANGED <<c2s, nid, stat>>
  /\ UNCHANGED <<now, s2c, ndup, nloss, ever>>
ClientSetKey(k) == C!SetRemote(k) /\ UNCHANGED <<now, c2s, s2c, nid, ndup, nloss, stat, ever>>
ClientCancel(t) == C!Cancel(t) /\ UNCHANGED <<now, c2s, s2c, nid, ndup, nloss, stat, ever>>
Tick(d) == /\ now + d <= MaxTime /\ now' = now + d /\ act' = [name |-> "tick", d |-> d]
           /\ UNCHANGED <<out, validated, rcred, lcred, c2s, s2c, nid, ndup, nloss, stat, ever>>

\* the network delivers a request of transaction t to the server, which answers at once (stateless)
ServerReceive(t, keep) ==
  /\ c2s[t] > 0
  /\ (keep => ndup < MaxDup)
  /\ c2s' = IF keep THEN c2s ELSE [c2s EXCEPT ![t] = @ - 1]
  /\ ndup' = IF keep THEN ndup + 1 ELSE ndup
  /\ s2c' = [s2c EXCEPT ![t] = IF @ < MaxFlight THEN @ + 1 ELSE @]
  /\ nid' = nid
  /\ act' = [name |-> "server", tid |-> t, keep |-> keep]
  /\ UNCHANGED <<out, validated, rcred, lcred, now, nloss, stat, ever>>
\* the network delivers a response to the client
ClientReceive(t, keep) ==
  /\ s2c[t] > 0
  /\ (keep => ndup < MaxDup)
  /\ s2c' = IF keep THEN s2c ELSE [s2c EXCEPT ![t] = @ - 1]
  /\ ndup' = IF keep THEN ndup + 1 ELSE ndup
  /\ C!HandleResponse(t, ServerAddr, ServerKey)
  /\ stat' = IF act'.reply.k = "response"
               THEN [stat EXCEPT ![t].delivered = @ + 1, ![t].done = TRUE] ELSE stat
  /\ ever' = (ever \/ act'.reply.k = "response")
  /\ UNCHANGED <<now, c2s, nid, nloss>>
Lose(t, dir) ==
  /\ nloss < MaxLoss
  /\ \/ dir = "c2s" /\ c2s[t] > 0 /\ c2s' = [c2s EXCEPT ![t] = @ - 1] /\ UNCHANGED s2c
     \/ dir = "s2c" /\ s2c[t] > 0 /\ s2c' = [s2c EXCEPT ![t] = @ - 1] /\ UNCHANGED c2s
  /\ nloss' = nloss + 1
  /\ act' = [name |-> "lose", tid |-> t, dir |-> dir]
  /\ UNCHANGED <<out, validated, rcred, lcred, now, nid, ndup, stat, ever>>

Next ==
  \/ \E t \in Tids, s \in SealedOpts : ClientSend(t, s)
  \/ ClientPoll
  \/ \E k \in ClientKeys : ClientSetKey(k)
  \/ \E t \in Tids : ClientCancel(t)
  \/ \E d \in TickSet : Tick(d)
  \/ \E t \in Tids, keep \in BOOLEAN : ServerReceive(t, keep)
  \/ \E t \in Tids, keep \in BOOLEAN : ClientReceive(t, keep)
  \/ \E t \in Tids, dir \in {"c2s", "s2c"} : Lose(t, dir)
Spec == Init /\ [][Next]_vars

-----------------------------------------------------------------------------
\* a transaction is answered at most once, whatever the network duplicates
AtMostOnce == \A t \in Tids : stat[t].delivered <= 1
\* never more transmissions than the schedule allows
BoundedTransmissions == \A t \in Tids : stat[t].tx <= 1 + Len(DefSched)
\* the ghost agrees with the agent on what is outstanding
GhostAgrees == \A t \in Tids : (~stat[t].done) <=> (t \in DOMAIN out)
\* a response handed up belongs to an outstanding transaction; late or foreign ones are dropped without effect
LateDropped == [][(act'.name = "recv" /\ stat[act'.tid].done) => (act'.reply.k = "drop" /\ UNCHANGED <<out, validated>>)]_vars
\* an unsealed answer never completes a sealed request (C07 seen end to end)
NoUnauthenticatedCompletion ==
  [][(act'.name = "recv" /\ act'.reply.k = "response" /\ out[act'.tid].sealed) => (rcred # None /\ act'.integ = rcred)]_vars
\* the server's address is validated only once a response was really accepted from it
ValidatedOnlyAfterResponse == (ServerAddr \in validated) <=> ever

\* liveness: with a fair network that loses at most MaxLoss datagrams and a client that keeps polling, a request that
\* is transmitted more often than that is answered or completes otherwise - it never stays outstanding for ever
Fairness == /\ WF_vars(ClientPoll) /\ \A d \in TickSet : WF_vars(Tick(d))
            /\ \A t \in Tids : WF_vars(ServerReceive(t, FALSE)) /\ WF_vars(ClientReceive(t, FALSE))
LiveSpec == Spec /\ Fairness
\* (time is bounded by MaxTime in this model, so "eventually completes" is stated up to the horizon: whenever the
\* clock can no longer advance, nothing whose final timeout lies before the horizon is still outstanding)
SetToSeq1(S) == IF S = {} THEN <<>> ELSE LET RECURSIVE F(_) F(R) == IF R = {} THEN <<>> ELSE LET x == CHOOSE y \in R : TRUE IN <<x>> \o F(R \ {x}) IN F(S)
RECURSIVE SortedSeq(_)
SortedSeq(S) == IF S = {} THEN <<>> ELSE LET m == CHOOSE x \in S : \A y \in S : x <= y IN <<m>> \o SortedSeq(S \ {m})
StateJson(o, n, cs, sc, nd, nl, v, rc, st) ==
  [out |-> [i \in 1..Cardinality(DOMAIN o) |-> LET t == SortedSeq(DOMAIN o)[i] IN
              [tid |-> t, to |-> o[t].to, sealed |-> o[t].sealed, idx |-> o[t].idx, lastSend |-> o[t].lastSend, sc |-> o[t].sc, rc |-> o[t].rc]],
   now |-> n, c2s |-> [i \in 1..Cardinality(Tids) |-> cs[SortedSeq(Tids)[i]]], s2c |-> [i \in 1..Cardinality(Tids) |-> sc[SortedSeq(Tids)[i]]],
   ndup |-> nd, nloss |-> nl, val |-> SetToSeq1(v), rcred |-> rc, lcred |-> None,
   stat |-> [i \in 1..Cardinality(Tids) |-> st[SortedSeq(Tids)[i]]],
   probe |-> IF DOMAIN o = {} THEN "idle" ELSE IF \E t \in DOMAIN o : o[t].rc THEN "skip"
             ELSE ToString(C!Min({C!Svc(o[t], -1).t : t \in DOMAIN o}))]
Emit == PrintT("EDGE " \o ToJson([src |-> StateJson(out, now, c2s, s2c, ndup, nloss, validated, rcred, stat), act |-> act',
                                  dst |-> StateJson(out', now', c2s', s2c', ndup', nloss', validated', rcred', stat')]))
=============================================================================
