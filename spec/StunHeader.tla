----------------------------- MODULE StunHeader -----------------------------
(***************************************************************************)
(* RFC 8489 section 5: the 16-bit message type field                       *)
(*                                                                         *)
(*    0 0 M11 M10 M9 M8 M7 C1 M6 M5 M4 C0 M3 M2 M1 M0                        *)
(*                                                                         *)
(* written with div/mod from the bit diagram, the magic cookie and the     *)
(* 96-bit transaction id (C19), and the fixed 20-byte header.              *)
(***************************************************************************)
EXTENDS StunBytes

Classes == <<"request", "indication", "success", "error">>     \* C1C0 = 00, 01, 10, 11
ClassBits(c) == CHOOSE i \in 0..3 : Classes[i + 1] = c

\* method bits M3..M0 stay, M6..M4 move up by one (C0 sits at bit 4), M11..M7 by two (C1 at bit 8)
TypeField(c, m) ==
  (m % 16) + ((m \div 16) % 8) * 32 + (m \div 128) * 512
  + (ClassBits(c) % 2) * 16 + (ClassBits(c) \div 2) * 256
IsStunType(f) == f < 16384                                     \* top two bits zero
ClassOf(f)  == Classes[((f \div 16) % 2) + 2 * ((f \div 256) % 2) + 1]
MethodOf(f) == (f % 16) + ((f \div 32) % 8) * 16 + ((f \div 512) % 32) * 128

MagicCookie == <<33, 18, 164, 66>>                              \* 0x2112A442

\* a transaction id is 96 bits = 12 bytes; conversion from a wider (16-byte) integer keeps the low 96 bits
TidFromWide(b16) == SubSeq(b16, 5, 16)

HeaderBytes(c, m, len, tid) == W16(TypeField(c, m)) \o W16(len) \o MagicCookie \o tid

(* Stand-alone header decoder (MessageHeader::from_bytes): C17 *)
HeaderVerdict(b) ==
  IF Len(b) < 20 THEN [ok |-> FALSE, err |-> "Truncated", expected |-> 20, actual |-> Len(b)]
  ELSE IF ~IsStunType(U16(b, 1)) THEN [ok |-> FALSE, err |-> "NotStun"]
  ELSE IF SubSeq(b, 5, 8) # MagicCookie THEN [ok |-> FALSE, err |-> "NotStun"]
  ELSE [ok |-> TRUE, class |-> ClassOf(U16(b, 1)), method |-> MethodOf(U16(b, 1)),
        length |-> U16(b, 3), tid |-> SubSeq(b, 9, 20)]

(* MessageType::from_bytes *)
TypeVerdict(b) ==
  IF Len(b) < 2 THEN [ok |-> FALSE, err |-> "Truncated", expected |-> 2, actual |-> Len(b)]
  ELSE IF ~IsStunType(U16(b, 1)) THEN [ok |-> FALSE, err |-> "NotStun"]
  ELSE [ok |-> TRUE, class |-> ClassOf(U16(b, 1)), method |-> MethodOf(U16(b, 1))]

(* C19 in-spec theorems (checked exhaustively by TLC in MCHeader) *)
TypeRoundTrip == \A ci \in 1..4 : \A m \in 0..4095 :
   LET f == TypeField(Classes[ci], m) IN IsStunType(f) /\ ClassOf(f) = Classes[ci] /\ MethodOf(f) = m
TypeOnto == \A f \in 0..16383 : TypeField(ClassOf(f), MethodOf(f)) = f /\ MethodOf(f) \in 0..4095
\* the bit diagram itself: bit k of the field, for every k
Bit(x, k) == (x \div (2 ^ k)) % 2
TypeBits == \A ci \in 1..4 : \A m \in {0, 1, 2, 4, 8, 16, 32, 64, 128, 256, 512, 1024, 2048, 4095, 2730, 1365} :
   LET f == TypeField(Classes[ci], m)  c == ci - 1 IN
     /\ \A k \in 0..3 : Bit(f, k) = Bit(m, k)
     /\ Bit(f, 4) = Bit(c, 0)
     /\ \A k \in 5..7 : Bit(f, k) = Bit(m, k - 1)
     /\ Bit(f, 8) = Bit(c, 1)
     /\ \A k \in 9..13 : Bit(f, k) = Bit(m, k - 2)
     /\ Bit(f, 14) = 0 /\ Bit(f, 15) = 0
=============================================================================
