INIT MCInit
NEXT MCNext
CONSTANTS
  Tids = {1, 2}
  Addrs = {"a1", "a2", "a3"}
  Keys = {"k1", "k2"}
  Payloads = {"p1"}
  None = "none"
  Corrupt = "corrupt"
  Udp = TRUE
  DefSched <- Sched_1
  DefLast = 1
  IdleWait = 3600
  MaxTime = 1
  TickSet = {1}
  ToAddrs = {"a1"}
  FromAddrs = {"a3"}
  SealedOpts = {TRUE, FALSE}
  IntegOpts = {"none", "k1", "k2", "corrupt"}
  CfgIds = {}
  RemoteKeys = {"k1", "k2"}
  LocalKeys = {"k2"}
  OtherCls = {"error"}
  InCls = {"indication"}
  CancelOps = {"cancel"}
  Horizon = 3
VIEW core
CHECK_DEADLOCK FALSE
ACTION_CONSTRAINT Emit
