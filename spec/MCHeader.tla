------------------------------ MODULE MCHeader ------------------------------
(* C19: exhaustive check of the type-field algebra, and the judge for the  *)
(* table recorded from the implementation (IOEnv.TABLE, one record/line).  *)
EXTENDS StunHeader, TLC, Json, IOUtils
ASSUME TypeRoundTrip
ASSUME TypeOnto
ASSUME TypeBits
ASSUME PrintT("TYPE-ALGEBRA-OK")

Tab == IF "TABLE" \in DOMAIN IOEnv THEN ndJsonDeserialize(IOEnv.TABLE) ELSE <<>>
\* record kinds: {"k":"dec","f":N,"ok":bool,"class":..,"method":..}  decode of every 16-bit value
\*               {"k":"enc","class":..,"method":N,"f":N}             encode of every (class, method)
\*               {"k":"tid","wide":[16 bytes],"hdr":[20 bytes],"back":[12 bytes]}
Bad(r) ==
  IF r.k = "dec" THEN
       IF IsStunType(r.f) THEN ~(r.ok /\ r.class = ClassOf(r.f) /\ r.method = MethodOf(r.f))
       ELSE ~(~r.ok /\ r.err = "NotStun")
  ELSE IF r.k = "enc" THEN r.f # TypeField(r.class, r.method) \/ r.bytes # W16(TypeField(r.class, r.method))
  ELSE IF r.k = "tid" THEN
       \/ r.back # TidFromWide(r.wide)
       \/ SubSeq(r.hdr, 9, 20) # TidFromWide(r.wide)
       \/ SubSeq(r.hdr, 5, 8) # MagicCookie
       \/ r.parsed # TidFromWide(r.wide)
  ELSE IF r.k = "gen" THEN Len(r.wide) # 16 \/ SubSeq(r.wide, 1, 4) # <<0, 0, 0, 0>>
  ELSE TRUE
BadIdx == {i \in 1..Len(Tab) : Bad(Tab[i])}
ASSUME PrintT("JUDGED " \o ToString(Len(Tab)))
ASSUME \A i \in BadIdx : PrintT("MISMATCH " \o ToString(i))
VARIABLE x
Init == x = 0
Next == UNCHANGED x
=============================================================================
