SPECIFICATION MCSpec
CONSTANTS
  Tids = {1, 2}
  Addrs = {"a1", "a2", "a3"}
  Keys = {"k1", "k2"}
  Payloads = {"p1", "p2"}
  None = "none"
  Corrupt = "corrupt"
  Udp = TRUE
  DefSched <- Sched_1
  DefLast = 1
  IdleWait = 3600
  MaxTime = 3
  TickSet = {1}
  ToAddrs = {"a1", "a2"}
  FromAddrs = {"a3"}
  SealedOpts = {FALSE}
  IntegOpts = {"none"}
  CfgIds = {1}
  RemoteKeys = {}
  LocalKeys = {}
  OtherCls = {"indication", "success", "error", "data"}
  InCls = {}
  CancelOps = {"cancel_rt"}
  Horizon = 6
VIEW core
CHECK_DEADLOCK FALSE
INVARIANTS MCTypeOK LifeInv ScheduleInv CancelInv PromiseInv PeerInv
PROPERTIES C05Prop C06Prop C07Prop C15Prop C18Prop
