--------------------------- MODULE StunBuilderOps ---------------------------
(***************************************************************************)
(* The builder rules of C11 over arbitrary attribute TYPES (StunBuilder    *)
(* states them over five fixed kinds so that TLC can enumerate every       *)
(* operation sequence): used as the judge of recorded random operation     *)
(* sequences on builders of every origin (IOEnv.OPS, one record per line:  *)
(* the serialisation of the builder before the first operation, the        *)
(* operations with their results).                                         *)
(*   AddRule / IntegrityRule / FingerprintRule are the sentences of C11;   *)
(*   the attribute list before the first operation is what the initial     *)
(*   serialisation contains (Attrs of StunMessage).                        *)
(***************************************************************************)
EXTENDS StunMessage, TLC, Json, IOUtils


TypesOf(s) == {s[i] : i \in 1..Len(s)}
Sealed(s) == TypesOf(s) \cap {MI, MI256, FP} # {}

\* is the operation carried out on a builder whose attribute types are s (in order)?
Allowed(s, op) ==
  IF op.op \in {"add_attribute", "add_raw_attribute"} THEN op.type \notin TypesOf(s) /\ ~Sealed(s)
  ELSE IF op.op = "add_integrity" /\ op.type = MI THEN ~Sealed(s)
  ELSE IF op.op = "add_integrity" THEN TypesOf(s) \cap {MI256, FP} = {}
  ELSE IF op.op = "add_fingerprint" THEN FP \notin TypesOf(s)
  ELSE TRUE                                   \* into_owned, clone
After(s, op) ==
  IF Allowed(s, op) /\ op.op \notin {"into_owned", "clone"} THEN Append(s, op.type) ELSE s

\* the attribute lists after each operation (element k: after the first k operations; element 0 is Init)
RECURSIVE Run(_, _, _)
Run(s, ops, k) == IF k > Len(ops) THEN <<>> ELSE LET s2 == After(s, ops[k]) IN <<[allowed |-> Allowed(s, ops[k]), types |-> s2]>> \o Run(s2, ops, k + 1)

InitialTypes(b) == LET as == Attrs(b) IN [i \in 1..Len(as) |-> as[i].type]

Recs == ndJsonDeserialize(IOEnv.OPS)
Expect(i) ==
  LET r == Recs[i]  p == Parse(r.initial) IN
  [i |-> i, initial_ok |-> p.ok,
   initial_types |-> IF p.ok THEN InitialTypes(r.initial) ELSE <<>>,
   steps |-> IF p.ok THEN Run(InitialTypes(r.initial), r.ops, 1) ELSE <<>>]

\* in-spec sanity: the generalised rules restricted to the kinds of StunBuilder give the sentences checked there
ASSUME Allowed(<<6>>, [op |-> "add_attribute", type |-> 6]) = FALSE
ASSUME Allowed(<<6, MI>>, [op |-> "add_integrity", type |-> MI256]) = TRUE
ASSUME Allowed(<<6, MI256>>, [op |-> "add_integrity", type |-> MI]) = FALSE
ASSUME Allowed(<<MI, MI256>>, [op |-> "add_fingerprint", type |-> FP]) = TRUE
ASSUME Allowed(<<FP>>, [op |-> "add_integrity", type |-> MI256]) = FALSE
ASSUME Allowed(<<MI>>, [op |-> "add_raw_attribute", type |-> 0]) = FALSE

VARIABLE x
Init == x = 0
Next == /\ x = 0 /\ x' = 1
        /\ \A i \in 1..Len(Recs) : PrintT("EXPECT " \o ToJson(Expect(i)))
        /\ PrintT("JUDGED " \o ToString(Len(Recs)))
=============================================================================
