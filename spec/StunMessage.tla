----------------------------- MODULE StunMessage -----------------------------
(***************************************************************************)
(* STUN messages at byte level (stun-types/src/message.rs): the parser,    *)
(* the exposure rule of the attribute iterator, the plan followed by       *)
(* validate_integrity, attribute policing and prefixes.                    *)
(*                                                                         *)
(* Two formulations of acceptance are given on purpose:                    *)
(*   WellFormed(b)  declarative, transcribed from property C02;            *)
(*   Parse(b)       operational, the loop of Message::from_bytes with its  *)
(*                  checks in the code's order (so that it also predicts   *)
(*                  WHICH error is reported).                              *)
(* TLC checks Parse(b).ok <=> WellFormed(b) on every buffer it sees.       *)
(* Offsets named `off` are 0-based byte offsets (as in the code and the    *)
(* RFC); sequence indices are 1-based, hence the +1 in U16(b, off + 1).    *)
(***************************************************************************)
EXTENDS StunHeader

MI    == 8          \* 0x0008 MESSAGE-INTEGRITY
MI256 == 28         \* 0x001C MESSAGE-INTEGRITY-SHA256
FP    == 32808      \* 0x8028 FINGERPRINT
ERRORCODE == 9
UNKNOWNATTRS == 10
SOFTWARE == 32802   \* 0x8022
Integrity == {MI, MI256}
Ending    == {MI, MI256, FP}
FpXor == <<21332, 21838>>      \* 0x5354554e as <<hi16, lo16>>

SetLen(b, n) == [i \in 1..Len(b) |-> IF i = 3 THEN n \div 256 ELSE IF i = 4 THEN n % 256 ELSE b[i]]
Value(b, a) == Slice(b, a.off + 5, a.len)
AttrEnd(a) == a.off + 4 + Pad4(a.len)        \* 0-based offset just after the padded attribute

(* Tolerant TLV walk of b from offset `off` to the end of b.                                              *)
(* TLC pays for every level of a recursion on every evaluation below it, so a walk that is one recursion   *)
(* deep per attribute is quadratic in the number of attributes.  The walk is therefore cut into runs: WalkN *)
(* visits at most n attributes, WalkM at most m runs of 32, Walk as many of those as it takes; the result is *)
(* that of the plain recursion (field `more` aside), the depth is 64 + attributes / 1024.                 *)
RECURSIVE WalkN(_, _, _, _)
WalkN(b, off, acc, n) ==
  IF n = 0 THEN [more |-> TRUE, off |-> off, as |-> acc]
  ELSE IF off = Len(b) THEN [more |-> FALSE, tiled |-> TRUE, as |-> acc]
  ELSE IF Len(b) - off < 4 THEN [more |-> FALSE, tiled |-> FALSE, as |-> acc, at |-> off, why |-> "header"]
  ELSE LET len == U16(b, off + 3) IN
       IF 4 + len > Len(b) - off THEN [more |-> FALSE, tiled |-> FALSE, as |-> acc, at |-> off, why |-> "value"]
       ELSE IF 4 + Pad4(len) > Len(b) - off THEN [more |-> FALSE, tiled |-> FALSE, as |-> acc, at |-> off, why |-> "padding"]
       ELSE WalkN(b, off + 4 + Pad4(len), Append(acc, [type |-> U16(b, off + 1), off |-> off, len |-> len]), n - 1)
RECURSIVE WalkM(_, _, _, _)
WalkM(b, off, acc, m) ==
  IF m = 0 THEN [more |-> TRUE, off |-> off, as |-> acc]
  ELSE LET r == WalkN(b, off, acc, 32) IN IF r.more THEN WalkM(b, r.off, r.as, m - 1) ELSE r
RECURSIVE Walk(_, _, _)
Walk(b, off, acc) == LET r == WalkM(b, off, acc, 32) IN IF r.more THEN Walk(b, r.off, r.as) ELSE r

\* the FINGERPRINT relation of RFC 8489 14.7 for attribute a of buffer b: CRC-32 of everything before the
\* attribute, with the length field covering the attribute, XOR 0x5354554e
FpCrc(b, a) == Crc32(SetLen(SubSeq(b, 1, a.off), a.off + 8 - 20))
FpOk(b, a) == a.len = 4 /\ X2(U32(b, a.off + 5), FpXor) = FpCrc(b, a)

HeaderOk(b) == Len(b) >= 20 /\ IsStunType(U16(b, 1)) /\ SubSeq(b, 5, 8) = MagicCookie

(* C02, declaratively *)
WellFormed(b) ==
  /\ HeaderOk(b)
  /\ U16(b, 3) + 20 = Len(b)
  /\ LET w == Walk(b, 20, <<>>)  as == w.as IN
     /\ w.tiled
     /\ \A i \in 1..Len(as) :
          /\ (\E j \in 1..(i - 1) : as[j].type \in Integrity) => as[i].type \in Ending
          /\ ~ \E j \in 1..(i - 1) : as[j].type = FP
          /\ as[i].type \in Ending => ~ \E j \in 1..(i - 1) : as[j].type = as[i].type
          /\ as[i].type = FP => FpOk(b, as[i])

(* C02, operationally: Message::from_bytes.  `exact` says whether the byte counts of a Truncated error are
   fixed by a property (C02/C17) or merely documented (as-is). *)
Err(e) == [ok |-> FALSE, err |-> e]
Trunc(e, a, x) == [ok |-> FALSE, err |-> "Truncated", expected |-> e, actual |-> a, exact |-> x]
\* (cut into runs like Walk: ParseN handles at most n attributes and says where it stopped)
Fin(r) == [more |-> FALSE, res |-> r]
RECURSIVE ParseN(_, _, _, _)
ParseN(b, off, seen, n) ==
  IF n = 0 THEN [more |-> TRUE, off |-> off, seen |-> seen]
  ELSE IF off >= Len(b) THEN Fin([ok |-> TRUE])
  ELSE LET rem == Len(b) - off IN
    \* (until D9 was repaired the code reported this case with both sizes 4 too large: Trunc(8 + off, rem + 4 + off))
    IF rem < 4 THEN Fin(Trunc(4 + off, Len(b), FALSE))
    ELSE LET ty == U16(b, off + 1)  len == U16(b, off + 3)  padded == 4 + Pad4(len) IN
      IF len > rem - 4 THEN Fin(Trunc(len + 4 + off, Len(b), FALSE))
      ELSE IF FP \in seen THEN Fin([ok |-> FALSE, err |-> "AttributeAfterFingerprint", type |-> ty])
      ELSE IF seen # {} /\ ty \notin Ending THEN Fin([ok |-> FALSE, err |-> "AttributeAfterIntegrity", type |-> ty])
      ELSE IF ty \in Ending /\ ty \in seen THEN Fin([ok |-> FALSE, err |-> "AttributeAfterIntegrity", type |-> ty])
      ELSE IF padded > rem THEN Fin(Trunc(off + padded, off + rem, FALSE))
      ELSE IF ty = FP /\ len < 4 THEN Fin(Trunc(4, len, FALSE))
      ELSE IF ty = FP /\ len > 4 THEN Fin([ok |-> FALSE, err |-> "TooLarge", expected |-> 4, actual |-> len])
      ELSE IF ty = FP /\ ~FpOk(b, [type |-> ty, off |-> off, len |-> len]) THEN Fin(Err("FingerprintMismatch"))
      ELSE ParseN(b, off + padded, IF ty \in Ending THEN seen \cup {ty} ELSE seen, n - 1)
RECURSIVE ParseM(_, _, _, _)
ParseM(b, off, seen, m) ==
  IF m = 0 THEN [more |-> TRUE, off |-> off, seen |-> seen]
  ELSE LET r == ParseN(b, off, seen, 32) IN IF r.more THEN ParseM(b, r.off, r.seen, m - 1) ELSE r
RECURSIVE ParseLoop(_, _, _)
ParseLoop(b, off, seen) == LET r == ParseM(b, off, seen, 32) IN IF r.more THEN ParseLoop(b, r.off, r.seen) ELSE r.res

Parse(b) ==
  LET hv == HeaderVerdict(b) IN
  IF ~hv.ok THEN (IF hv.err = "Truncated" THEN Trunc(20, Len(b), TRUE) ELSE Err(hv.err))
  ELSE IF hv.length + 20 > Len(b) THEN Trunc(hv.length + 20, Len(b), TRUE)
  ELSE IF hv.length + 20 < Len(b) THEN [ok |-> FALSE, err |-> "TooLarge", expected |-> hv.length + 20, actual |-> Len(b)]
  ELSE ParseLoop(b, 20, {})

(* Which rejections a buffer justifies, independently of the order in which the code checks (MUST oracle
   for "a rejection names its cause"): a set of <<error name, attribute type or -1>>. *)
CausesDecl(b) ==
  IF Len(b) < 20 THEN {<<"Truncated", -1>>}
  ELSE
    (IF ~IsStunType(U16(b, 1)) \/ SubSeq(b, 5, 8) # MagicCookie THEN {<<"NotStun", -1>>} ELSE {})
    \cup (IF U16(b, 3) + 20 > Len(b) THEN {<<"Truncated", -1>>} ELSE {})
    \cup (IF U16(b, 3) + 20 < Len(b) THEN {<<"TooLarge", -1>>} ELSE {})
    \cup LET w == Walk(b, 20, <<>>)
             \* an attribute whose 4-byte header is present but whose value or padding is cut still has a type and a
             \* place in the order: it can be "an attribute after integrity" as well as "truncated"
             as == IF ~w.tiled /\ w.why # "header"
                     THEN Append(w.as, [type |-> U16(b, w.at + 1), off |-> w.at, len |-> U16(b, w.at + 3)])
                     ELSE w.as IN
         (IF ~w.tiled THEN {<<"Truncated", -1>>} ELSE {})
         \cup {<<"AttributeAfterIntegrity", as[i].type>> : i \in {k \in 1..Len(as) :
                 /\ ~ \E j \in 1..(k - 1) : as[j].type = FP
                 /\ \/ (\E j \in 1..(k - 1) : as[j].type \in Integrity) /\ as[k].type \notin Ending
                    \/ as[k].type \in Ending /\ \E j \in 1..(k - 1) : as[j].type = as[k].type}}
         \cup {<<"AttributeAfterFingerprint", as[i].type>> : i \in {k \in 1..Len(as) : \E j \in 1..(k - 1) : as[j].type = FP}}
         \cup (IF \E i \in 1..Len(as) : as[i].type = FP /\ as[i].len = 4 /\ AttrEnd(as[i]) <= Len(b) /\ ~FpOk(b, as[i]) THEN {<<"FingerprintMismatch", -1>>} ELSE {})
         \cup (IF \E i \in 1..Len(as) : as[i].type = FP /\ as[i].len # 4
                 THEN {<<"Truncated", -1>>, <<"TooLarge", -1>>, <<"FingerprintMismatch", -1>>, <<"InvalidAttributeData", -1>>} ELSE {})

\* index of the first attribute among as[lo..hi] whose type is in S (hi + 1 when there is none): halving, so that the
\* recursion is logarithmically deep
RECURSIVE FirstIn(_, _, _, _)
FirstIn(as, S, lo, hi) ==
  IF lo > hi THEN lo
  ELSE IF lo = hi THEN (IF as[lo].type \in S THEN lo ELSE hi + 1)
  ELSE LET mid == (lo + hi) \div 2  l == FirstIn(as, S, lo, mid) IN IF l <= mid THEN l ELSE FirstIn(as, S, mid + 1, hi)
FirstFrom(as, S, i) == FirstIn(as, S, i, Len(as))

\* the same set as CausesDecl below, computed from the positions of the first FINGERPRINT / integrity attribute / each
\* ending type, so that buffers tiled by thousands of attributes are judged in linear time (MCStunMessage checks
\* Causes = CausesDecl on every enumerated message)
Causes(b) ==
  IF Len(b) < 20 THEN {<<"Truncated", -1>>}
  ELSE
    (IF ~IsStunType(U16(b, 1)) \/ SubSeq(b, 5, 8) # MagicCookie THEN {<<"NotStun", -1>>} ELSE {})
    \cup (IF U16(b, 3) + 20 > Len(b) THEN {<<"Truncated", -1>>} ELSE {})
    \cup (IF U16(b, 3) + 20 < Len(b) THEN {<<"TooLarge", -1>>} ELSE {})
    \cup LET w == Walk(b, 20, <<>>)
             as == IF ~w.tiled /\ w.why # "header"
                     THEN Append(w.as, [type |-> U16(b, w.at + 1), off |-> w.at, len |-> U16(b, w.at + 3)])
                     ELSE w.as
             fFp == FirstFrom(as, {FP}, 1)
             fInt == FirstFrom(as, Integrity, 1)
             fOf == [t \in Ending |-> FirstFrom(as, {t}, 1)]
             fps == {k \in 1..Len(as) : as[k].type = FP} IN
         (IF ~w.tiled THEN {<<"Truncated", -1>>} ELSE {})
         \cup {<<"AttributeAfterIntegrity", as[i].type>> : i \in {k \in 1..Len(as) :
                 /\ k <= fFp
                 /\ \/ k > fInt /\ as[k].type \notin Ending
                    \/ as[k].type \in Ending /\ k > fOf[as[k].type]}}
         \cup {<<"AttributeAfterFingerprint", as[i].type>> : i \in {k \in 1..Len(as) : k > fFp}}
         \cup (IF \E i \in fps : as[i].len = 4 /\ AttrEnd(as[i]) <= Len(b) /\ ~FpOk(b, as[i]) THEN {<<"FingerprintMismatch", -1>>} ELSE {})
         \cup (IF \E i \in fps : as[i].len # 4
                 THEN {<<"Truncated", -1>>, <<"TooLarge", -1>>, <<"FingerprintMismatch", -1>>, <<"InvalidAttributeData", -1>>} ELSE {})

-----------------------------------------------------------------------------
(* C10: what iteration and lookup expose of an accepted message.           *)
Attrs(b) == Walk(b, 20, <<>>).as
FirstIntegIdx(as) == LET f == FirstFrom(as, Integrity, 1) IN IF f > Len(as) THEN 0 ELSE f
ExposedIdx(as) ==
  LET f == FirstIntegIdx(as) IN
  IF f = 0 THEN [i \in 1..Len(as) |-> i]
  ELSE [i \in 1..f |-> i]
       \o (IF f < Len(as) /\ as[f].type = MI /\ as[f + 1].type = MI256 THEN <<f + 1>> ELSE <<>>)
       \o SelectSeq([i \in 1..(Len(as) - f) |-> f + i], LAMBDA k : as[k].type = FP)
Exposed(as) == LET ix == ExposedIdx(as) IN [i \in 1..Len(ix) |-> as[ix[i]]]
ExposedTypes(as) == LET e == Exposed(as) IN [i \in 1..Len(e) |-> e[i].type]
Lookup(as, ty) == LET e == Exposed(as)  hits == {i \in 1..Len(e) : e[i].type = ty}
                  IN IF hits = {} THEN 0 ELSE CHOOSE i \in hits : \A j \in hits : i <= j

-----------------------------------------------------------------------------
(* C04: the plan validate_integrity follows.  HMAC itself is not modelled: *)
(* the plan names the exact bytes to authenticate and the claimed MAC; an  *)
(* independent oracle computes HMAC over exactly these bytes.              *)
IntegrityPlan(b) ==
  LET as == Attrs(b)  e == Exposed(as)
      i256 == Lookup(as, MI256)  i1 == Lookup(as, MI) IN
  IF i256 = 0 /\ i1 = 0 THEN [present |-> FALSE]
  ELSE LET a == IF i256 # 0 THEN e[i256] ELSE e[i1]
           alg == IF i256 # 0 THEN "sha256" ELSE "sha1"
           lenOk == IF alg = "sha1" THEN a.len = 20 ELSE a.len >= 16 /\ a.len <= 32 /\ a.len % 4 = 0 IN
       [present |-> TRUE, alg |-> alg, off |-> a.off, lenOk |-> lenOk,
        \* everything before the attribute, with the length field set to the end of the attribute
        input |-> SetLen(SubSeq(b, 1, a.off), a.off + 4 + a.len - 20),
        mac |-> Value(b, a)]

(* Short-term key = the password; long-term key = MD5(user ":" realm ":" password) (RFC 8489 9.1.1, 9.2.2) *)
Colon == <<58>>
KeyPlan(cred) == IF cred.kind = "short" THEN [md5 |-> FALSE, input |-> cred.password]
                 ELSE [md5 |-> TRUE, input |-> cred.user \o Colon \o cred.realm \o Colon \o cred.password]

-----------------------------------------------------------------------------
(* C16: attribute policing (RFC 8489 6.3.1).                               *)
ComprehensionRequired(t) == t < 32768
SeqToSet(s) == {s[i] : i \in 1..Len(s)}
Police(b, supported, required) ==
  LET ts == ExposedTypes(Attrs(b))
      unknown == SelectSeq(ts, LAMBDA t : ComprehensionRequired(t) /\ t \notin supported) IN
  IF unknown # <<>> THEN [verdict |-> 420, unknown |-> unknown]
  ELSE IF \E r \in required : r \notin SeqToSet(ts) THEN [verdict |-> 400]
  ELSE [verdict |-> 0]

-----------------------------------------------------------------------------
(* Responses derived from a request (Message::builder_success / builder_error / bad_request /             *)
(* unknown_attributes): same method and transaction id, class success or error; the error helpers add      *)
(* SOFTWARE, ERROR-CODE (400 "Bad Request" / 420 "Unknown Attributes") and, for 420, UNKNOWN-ATTRIBUTES.    *)
ResponseHeader(b, cls) == [class |-> cls, method |-> MethodOf(U16(b, 1)), tid |-> SubSeq(b, 9, 20)]
ErrorResponse(b, code, unknown) ==
  [hdr |-> ResponseHeader(b, "error"), code |-> code, unknown |-> unknown,
   \* attribute types in order: SOFTWARE, ERROR-CODE[, UNKNOWN-ATTRIBUTES when the list is not empty]
   types |-> <<SOFTWARE, ERRORCODE>> \o (IF unknown = <<>> THEN <<>> ELSE <<UNKNOWNATTRS>>)]
=============================================================================
