INIT Init
NEXT Next

CONSTANTS
  MaxAttrs = 4
  Letters = {4, 9, 11, 12, 23, 24, 25}
  HeaderIds = {1}
  Defects = {}
INVARIANTS AcceptIffWellFormed ErrorIsACause RejectedHasCause CausesAgree TruncationDescribes ExposureInv EmitCase
CHECK_DEADLOCK FALSE
