SPECIFICATION MCSpec
CONSTANTS
  Tids = {1, 2}
  Addrs = {"a1", "a2", "a3"}
  Keys = {"k1", "k2"}
  Payloads = {"p1"}
  None = "none"
  Corrupt = "corrupt"
  Udp = TRUE
  DefSched <- Sched_12
  DefLast = 2
  IdleWait = 3600
  MaxTime = 6
  TickSet = {1, 2}
  ToAddrs = {"a1"}
  FromAddrs = {"a1"}
  SealedOpts = {FALSE}
  IntegOpts = {"none"}
  CfgIds = {2, 4}
  RemoteKeys = {}
  LocalKeys = {}
  OtherCls = {}
  InCls = {}
  CancelOps = {"cancel", "cancel_rt"}
  Horizon = 12
VIEW core
CHECK_DEADLOCK FALSE
INVARIANTS IndInvHere
PROPERTIES IndRefines
