INIT Init
NEXT Next
CHECK_DEADLOCK FALSE
