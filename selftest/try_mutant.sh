#!/bin/bash
# try_mutant.sh <patch.diff> <pid>... : apply a seeded change to /repo, run the quick checks, undo it.
set -u
P=$1; shift
cd /repo && git status --short | grep -q . && { echo "/repo not clean"; exit 2; }
git -C /repo apply "$P" || { echo "apply failed"; exit 2; }
cd /verif
for pid in "$@"; do
  out=$(./check $pid --tier quick 2>/tmp/try_mutant_$pid.err); rc=$?
  nv=$(echo "$out" | grep -c '^VIOLATION')
  echo "$pid rc=$rc violations=$nv $(python3 -c "
import json
try:
    e=json.load(open('/verif/evidence/$pid.json')); print('foreign=',e['coverage'].get('mismatches_attributed_to_other_properties'))
except Exception as x: print(x)")"
done
git -C /repo checkout -- .
git -C /repo status --short
