#!/bin/bash
# try_isolated.sh <worktree> <patch.diff> <pid>... : run the quick checks of a COPY of /verif against a scratch
# worktree of /repo with the seeded change applied (so that /repo itself stays untouched while developing).
set -u
WT=$1; P=$2; shift 2
TAG=$(basename $WT)_$(basename $P .diff)
V=/tmp/vrun/$TAG
mkdir -p /tmp/vrun
git -C $WT checkout -q -- . ; git -C $WT apply "$P" || { echo "apply failed"; exit 2; }
rsync -a --delete --exclude harness/target --exclude work --exclude replays --exclude .git /verif/ $V/
sed -i "s#/repo/stun-types#$WT/stun-types#; s#/repo/stun-proto#$WT/stun-proto#" $V/harness/Cargo.toml
# share a build cache between isolated runs of the same worktree
mkdir -p /tmp/vrun/target_$(basename $WT); ln -sfn /tmp/vrun/target_$(basename $WT) $V/harness/target
cd $V
for pid in "$@"; do
  out=$(VERIF_REPO=$WT ./check $pid --tier quick 2>$V/err_$pid.log); rc=$?
  nv=$(echo "$out" | grep -c '^VIOLATION')
  echo "$TAG $pid rc=$rc violations=$nv $(python3 -c "
import json
try:
    e=json.load(open('$V/evidence/$pid.json')); print('foreign=',e['coverage'].get('mismatches_attributed_to_other_properties'))
except Exception as x: print(x)")"
  [ $rc = 2 ] && tail -5 $V/err_$pid.log
done
git -C $WT checkout -q -- .
