#!/usr/bin/env python3
"""archive.py <worktree> <n> <pid> <detected_by text>: keep a confirmed seeded change under /verif/seeded/<pid>-<n>/"""
import json, os, shutil, sys
wt, n, pid, detected = sys.argv[1], sys.argv[2], sys.argv[3], sys.argv[4]
rnd = sys.argv[5] if len(sys.argv) > 5 else ""
d = "/verif/seeded/%s-%s%s" % (pid, rnd, n)
os.makedirs(d, exist_ok=True)
shutil.copy("%s/out/mutant%s.diff" % (wt, n), d + "/patch.diff")
shutil.copy("%s/out/demo%s.rs" % (wt, n), d + "/demo.rs")
try:
    m = json.load(open("%s/out/meta%s.json" % (wt, n)))
except Exception:
    m = {}
meta = {"property": pid, "summary": m.get("summary"), "needs": m.get("needs"),
        "author_ran": m.get("ran"),
        "confirmed_by_me": "selftest/confirm.sh in a scratch worktree: existing test suite passes with the change; demo fails with the change and passes without it",
        "checks_run": detected}
json.dump(meta, open(d + "/meta.json", "w"), indent=1)
print(d)
