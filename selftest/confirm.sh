#!/bin/bash
# confirm.sh <worktree> <n>: independently confirm a seeded change produced by a sub-agent:
#  existing tests pass with the change; the demonstration fails with it and passes without it.
set -u
WT=$1; N=$2
cd "$WT" || exit 2
git checkout -q -- . ; rm -f stun-proto/tests/demo_*.rs stun-types/tests/demo_*.rs
crate=$(head -3 out/demo$N.rs | grep -o 'stun-[a-z]*' | head -1); crate=${crate:-stun-proto}
mkdir -p $crate/tests
git apply out/mutant$N.diff || { echo "APPLY FAILED"; exit 2; }
if cargo test --workspace --offline -q >/tmp/confirm_tests.log 2>&1; then T=pass; else T=FAIL; fi
cp out/demo$N.rs $crate/tests/demo_$N.rs
if cargo test -p $crate --offline -q --test demo_$N >/tmp/confirm_demo_mut.log 2>&1; then DM=pass; else DM=fail; fi
git checkout -q -- .
if cargo test -p $crate --offline -q --test demo_$N >/tmp/confirm_demo_orig.log 2>&1; then DO=pass; else DO=fail; fi
rm -f $crate/tests/demo_$N.rs
echo "mutant$N crate=$crate existing_tests_with_change=$T demo_with_change=$DM demo_without_change=$DO"
[ "$T" = pass ] && [ "$DM" = fail ] && [ "$DO" = pass ]
