#!/usr/bin/env python3
"""prints the markdown table of seeded changes (from seeded/*/meta.json)"""
import glob, json, os
rows = []
cross = json.load(open("/verif/selftest/cross.json"))
for d in sorted(glob.glob("/verif/seeded/*")):
    m = json.load(open(d + "/meta.json"))
    s = (m.get("summary") or "").replace("\n", " ").replace("|", "/")
    n = (m.get("needs") or "").replace("\n", " ").replace("|", "/")
    rows.append("| %s | %s | %s | %s | %s |" % (os.path.basename(d), s[:170] + ("..." if len(s) > 170 else ""), n[:130] + ("..." if len(n) > 130 else ""), m.get("detected_short", "detected"), ", ".join(cross.get(os.path.basename(d), [])) or "-"))
print("| id | change | needs | result by its own property's check | mismatches also attributed to |\n|----|--------|-------|--------|------|")
print("\n".join(rows))
