#!/bin/bash
# run_neutral.sh [pattern] [pids...]: apply every archived behaviour-preserving change (seeded-neutral/<id>/patch.diff) to a
# scratch worktree of /repo's HEAD and run the quick checks (default: all 20) of an isolated copy of /verif against it.
# Every line must say rc=0: these changes keep all 20 properties, so any alarm is a false alarm.  /repo is never modified.
set -u
PAT=${1:-}; shift || true
PIDS=${*:-C01 C02 C03 C04 C05 C06 C07 C08 C09 C10 C11 C12 C13 C14 C15 C16 C17 C18 C19 C20}
WT=/tmp/wt/neutraltest
git -C /repo worktree remove --force $WT 2>/dev/null
git -C /repo worktree add -q --detach $WT HEAD || exit 2
for d in /verif/seeded-neutral/*${PAT}*; do
  id=$(basename $d)
  git -C $WT checkout -q -- .
  if ! git -C $WT apply --check $d/patch.diff 2>/dev/null; then echo "$id patch does not apply to HEAD"; continue; fi
  cp $d/patch.diff /tmp/neutral_$id.diff
  /verif/selftest/try_isolated.sh $WT /tmp/neutral_$id.diff $PIDS 2>&1 | sed "s/^neutraltest_neutral_$id/$id/" | cut -c1-160
  rm -f /tmp/neutral_$id.diff
done
git -C /repo worktree remove --force $WT
