#!/bin/bash
# run_all.sh [pattern]: re-run every archived seeded change (seeded/<id>/patch.diff) against its property's quick check,
# in an isolated copy of /verif pointed at a scratch worktree of /repo's HEAD; prints one line per change.
# /repo itself is never modified.  Takes about a minute per change.
set -u
PAT=${1:-}
WT=/tmp/wt/selftest
git -C /repo worktree remove --force $WT 2>/dev/null
git -C /repo worktree add -q --detach $WT HEAD || exit 2
for d in /verif/seeded/*${PAT}*; do
  id=$(basename $d); pid=${id%%-*}
  git -C $WT checkout -q -- . 
  if grep -q '"obsolete_since"' $d/meta.json; then echo "$id obsolete: no longer a regression on HEAD (see meta.json)"; continue; fi
  if ! git -C $WT apply --check $d/patch.diff 2>/dev/null; then echo "$id patch does not apply to HEAD"; continue; fi
  cp $d/patch.diff /tmp/selftest_$id.diff
  /verif/selftest/try_isolated.sh $WT /tmp/selftest_$id.diff $pid 2>&1 | sed "s/^selftest_selftest_$id/$id/" | cut -c1-160
  rm -f /tmp/selftest_$id.diff
done
git -C /repo worktree remove --force $WT
