#!/bin/bash
# (session helper: RND=<round> selftest/trial.sh <pid> confirms and trials out/mutant{1,2,3}.diff of /tmp/wt/<round>-<pid>; logs under /root/scratch)
# trial.sh <pid> [extra pids...] : confirm the three changes of /tmp/wt/${RND:-r6}-<pid> and run the property's quick check against each
P=$1; shift
WT=/tmp/wt/${RND:-r6}-$P
L=/root/scratch/trial_${RND:-r6}_$P.log
: > $L
for n in 1 2 3; do
  [ -f $WT/out/mutant$n.diff ] || { echo "$P-$n: no diff" >> $L; continue; }
  /verif/selftest/confirm.sh $WT $n >> $L 2>&1
  echo "confirm rc=$?" >> $L
  /verif/selftest/try_isolated.sh $WT $WT/out/mutant$n.diff $P "$@" >> $L 2>&1
done
echo DONE >> $L
